#!/bin/bash
# usage: tools/eval_seed.sh <ID> <mN> "<demo command run from the worktree root>" <check-id>...
# Verifies a sub-agent's seeded change in its scratch worktree (/tmp/seed/<ID>), runs the given
# checks against it in /repo (apply, run, restore) and files it under /verif/seeded/<ID>-<mN>/.
set -u
ID="$1"; M="$2"; DEMO="$3"; shift 3
wt=/tmp/seed/$ID; src=$wt/seeded/$M; dst=/verif/seeded/$ID-$M
export GOFLAGS=-mod=mod GOPROXY=off GOSUMDB=off GOTOOLCHAIN=local
cd "$wt" || exit 2
git checkout -- . 2>/dev/null
bash -c "$DEMO" > /tmp/seed/$ID.$M.demo_clean.log 2>&1; demo_clean=$?
if ! git apply "$src/patch.diff"; then echo "patch does not apply"; exit 2; fi
go build ./... > /tmp/seed/$ID.$M.build.log 2>&1; build=$?
go test -vet=off -count=1 ./... > /tmp/seed/$ID.$M.suite.log 2>&1; suite=$?
bash -c "$DEMO" > /tmp/seed/$ID.$M.demo_mut.log 2>&1; demo_mut=$?
git checkout -- .
echo "[$ID-$M] build=$build suite_with_change=$suite demo_clean=$demo_clean demo_with_change=$demo_mut"
mkdir -p "$dst"
cp "$src/patch.diff" "$dst/patch.diff"
rm -rf "$dst/demo"; cp -r "$src/demo" "$dst/demo"
cp "$src/meta.json" "$dst/agent_meta.json" 2>/dev/null
res=$(cd /verif && ./tools/with_patch.sh "$dst/patch.diff" quick "$@")
echo "$res"
python3 - "$ID" "$M" "$DEMO" "$build" "$suite" "$demo_clean" "$demo_mut" "$res" "$dst" <<'PY'
import json,sys,os
ID,M,demo,build,suite,dc,dm,res,dst=sys.argv[1:10]
agent={}
try: agent=json.load(open(os.path.join(dst,'agent_meta.json')))
except Exception: pass
caught={}
for line in res.splitlines():
    if line.startswith('== '):
        parts=line.split()
        caught[parts[1]]={'rc':int(parts[2].split('=')[1]),'violations':int(parts[3]), 'first':line.split(';',1)[1].strip()[:300] if ';' in line else ''}
meta=dict(property=ID, mutant=M, summary=agent.get('summary'), needs=agent.get('needs'), files_changed=agent.get('files_changed'),
  demo_cmd=demo,
  confirmed=dict(builds=(build=='0'), suite_passes_with_change=(suite=='0'), demo_passes_without_change=(dc=='0'), demo_fails_with_change=(dm!='0')),
  what_i_ran=["git apply patch.diff in scratch worktree /tmp/seed/%s; go build ./...; go test -vet=off -count=1 ./...; demo with and without the change"%ID,
              "tools/with_patch.sh patch.diff quick "+' '.join(caught.keys())],
  checks=caught)
json.dump(meta,open(os.path.join(dst,'meta.json'),'w'),indent=1)
print(json.dumps(meta['confirmed']), {k:v['rc'] for k,v in caught.items()})
PY
