#!/bin/bash
# usage: tools/seed_round.sh A|B <seedroot> <prefix>
#   A: confirm every sub-agent change in its scratch worktree (demo clean / apply / build / suite / demo)  -> <seedroot>/<ID>.<mN>.verify.json
#   B: run the own-property quick check against every filed change of that round (sequential; uses /repo) -> <seedroot>/phaseB.txt
set -u
mode="$1"; root="$2"; prefix="$3"
if [ "$mode" = A ]; then
  python3 - "$root" <<'PY'
import json,os,shlex,sys
root=sys.argv[1]; lines=[]
for i in range(1,21):
    pid="C%02d"%i
    for m in ("m1","m2"):
        f="%s/%s/seeded/%s/meta.json"%(root,pid,m)
        if not os.path.exists(f): print("missing",f); continue
        d=json.load(open(f)); cmd=d.get('demo_cmd')
        if not cmd: cmd=open("%s/%s/seeded/%s/demo/RUN.txt"%(root,pid,m)).read().strip().splitlines()[-1]
        lines.append("SEEDROOT=%s /verif/tools/eval_seed_a.sh %s %s %s"%(root,pid,m,shlex.quote(cmd)))
open(root+'/jobs.txt','w').write("\n".join(lines)+"\n"); print(len(lines),"jobs")
PY
  cd "$root"
  for i in $(seq -w 1 20); do
    ( grep " C$i m" jobs.txt | while read -r line; do bash -c "$line" >> "$root/phaseA.C$i.log" 2>&1; done ) &
    while [ $(jobs -r | wc -l) -ge 5 ]; do sleep 2; done
  done
  wait; echo ALLDONE > "$root/phaseA.done"
else
  cd /verif; out="$root/phaseB.txt"; : > "$out"
  for d in /verif/seeded/C*-${prefix}m?; do n=$(basename $d); id=${n%%-*}
    echo "## $n" >> "$out"; ./tools/with_patch.sh $d/patch.diff quick $id >> "$out" 2>&1
  done
  echo ALLDONE >> "$out"
fi
