#!/usr/bin/env python3
"""Regenerates the seeded-changes table at the end of DESIGN.md section 10 from /verif/seeded/*/meta.json."""
import json, glob, os, re, sys
root = os.path.join(os.path.dirname(os.path.abspath(__file__)), "..")
def key(name):
    m = re.match(r"C(\d+)-(?:r(\d+))?m(\d+)", name)
    return (int(m.group(1)), int(m.group(2) or 1), int(m.group(3)))
rows = []
for p in sorted(glob.glob(os.path.join(root, "seeded", "*", "meta.json")), key=lambda p: key(os.path.basename(os.path.dirname(p)))):
    d = json.load(open(p))
    name = os.path.basename(os.path.dirname(p))
    checks = d.get("checks") or {}
    caught = sorted(k for k, v in checks.items() if v.get("rc") == 1)
    silent = sorted(k for k, v in checks.items() if v.get("rc") == 0)
    summ = (d.get("summary") or "").replace("|", "/").replace("\n", " ")
    if len(summ) > 180:
        summ = summ[:180] + "…"
    rows.append("| %s | %s | %s | %s | %s |" % (name, ", ".join(d.get("files_changed") or []), summ, ", ".join(caught) or "**none**", ", ".join(silent) or "—"))
table = "| seeded change | files | what it does | caught by (quick) | run, silent |\n|---|---|---|---|---|\n" + "\n".join(rows) + "\n"
path = os.path.join(root, "DESIGN.md")
s = open(path).read()
i = s.index("| seeded change | files | what it does |")
open(path, "w").write(s[:i] + table)
print(len(rows), "rows")
