#!/bin/bash
# usage: tools/with_patch.sh <patch.diff> <tier> <check-id>...
# Applies the patch to /repo, runs the checks, restores /repo. Prints one line per check.
set -u
patch="$1"; tier="$2"; shift 2
cd /repo || exit 2
if ! git diff --quiet; then echo "/repo has uncommitted changes"; exit 2; fi
if ! git apply "$patch"; then echo "patch does not apply: $patch"; exit 2; fi
export GOFLAGS=-mod=mod GOPROXY=off GOSUMDB=off GOTOOLCHAIN=local
if ! go build ./... >/dev/null 2>&1; then echo "patched tree does not build"; git apply -R "$patch" 2>/dev/null || git checkout -- .; exit 2; fi
cd /verif
for id in "$@"; do
  out=$(./check "$id" --tier "$tier" 2>&1); rc=$?
  echo "== $id rc=$rc $(echo "$out" | grep -c '^VIOLATION') violations; $(echo "$out" | grep -m1 -A1 '^VIOLATION' | tail -1 | cut -c1-300)"
done
git -C /repo apply -R "$patch" 2>/dev/null || git -C /repo checkout -- .
git -C /repo status --short | head -3
