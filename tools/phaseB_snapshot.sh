#!/bin/bash
# usage (cwd = a /verif tree, e.g. a `vp run` snapshot): tools/phaseB_snapshot.sh <seedroot> <out-file> [extra check ids...]
# For every sub-agent change under <seedroot>/<ID>/seeded/mN: make a scratch worktree of /repo HEAD with the
# patch applied (outside /repo and /verif), run this tree's own-property quick check (and any extra checks)
# against it through VERIF_REPO, remove the worktree. /repo itself is never touched.
set -u
root="$1"; out="$2"; shift 2
extra="$*"
export GOFLAGS=-mod=mod GOPROXY=off GOSUMDB=off GOTOOLCHAIN=local
: > "$out"
for i in $(seq -w 1 20); do
  id=C$i
  for m in m1 m2; do
    p="$root/$id/seeded/$m/patch.diff"
    [ -f "$p" ] || continue
    wt="$root/wtB-$id-$m"
    git -C /repo worktree remove --force "$wt" >/dev/null 2>&1
    git -C /repo worktree add --detach "$wt" HEAD >/dev/null 2>&1 || { echo "## $id-$m worktree failed" >> "$out"; continue; }
    echo "## $id-$m" >> "$out"
    if ! git -C "$wt" apply "$p"; then echo "patch does not apply" >> "$out"; git -C /repo worktree remove --force "$wt"; continue; fi
    for c in $id $extra; do
      o=$(VERIF_REPO="$wt" ./check "$c" --tier quick 2>&1); rc=$?
      echo "== $c rc=$rc $(echo "$o" | grep -c '^VIOLATION') violations; $(echo "$o" | grep -m1 -A1 '^VIOLATION' | tail -1 | cut -c1-300)" >> "$out"
    done
    git -C /repo worktree remove --force "$wt" >/dev/null 2>&1
  done
done
echo ALLDONE >> "$out"
