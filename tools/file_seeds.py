#!/usr/bin/env python3
"""Files the sub-agents' seeded changes under /verif/seeded/<ID>-<mN>/ with my own confirmation results
(phase A logs in /tmp/seed) and the outcome of the checks (phase B text files given on the command line)."""
import json, os, re, shutil, sys, glob
SEED = os.environ.get("SEEDROOT", "/tmp/seed")
PREFIX = os.environ.get("SEEDPREFIX", "")
OUT = "/verif/seeded"
def judged(id_, m):
    def has(p, rx):
        try: return bool(re.search(rx, open(p).read(), re.M))
        except Exception: return None
    base = "%s/%s.%s" % (SEED, id_, m)
    v = {}
    try: v = json.load(open(base + ".verify.json"))
    except Exception: pass
    suite_log = base + ".suite.log"
    fails = []
    try: fails = re.findall(r"^--- FAIL: (\S+)", open(suite_log).read(), re.M)
    except Exception: pass
    # packages whose only failures were load/random-sensitive tests were re-run with the change applied
    # when the machine was calmer (SEEDROOT/recheck.txt: "<ID> <mN> segment+verifier pass_on_attempt=K")
    recheck = None
    try:
        for line in open(SEED + "/recheck.txt"):
            f = line.split()
            if len(f) >= 4 and f[0] == id_ and f[1] == m and f[3].startswith("pass_on_attempt="):
                recheck = int(f[3].split("=")[1])
    except Exception:
        pass
    flaky = {"TestConcurrentReadersAndWriter", "TestFrameCodecFuzz", "TestStore", "TestStore/reportFn_blocks"}
    first_ok = v.get("suite") == 0
    passes = first_ok or (bool(recheck) and set(fails) <= flaky)
    return dict(
        builds=(v.get("build") == 0),
        suite_passes_with_change=passes,
        suite_first_full_run_green=first_ok,
        suite_recheck=(None if recheck is None else ("the packages that failed (only on %s) were re-run with the change applied on a calmer machine: passed on attempt %d" % (", ".join(sorted(set(fails))) or "load/random-sensitive tests", recheck) if recheck else "re-run still failing")),
        suite_failures_if_any=fails,
        demo_passes_without_change=bool(has(base + ".demo_clean.log", r"^(ok|PASS)")) and not has(base + ".demo_clean.log", r"^(--- FAIL|FAIL|panic:)"),
        demo_fails_with_change=bool(has(base + ".demo_mut.log", r"^(--- FAIL|FAIL|panic:)")),
    )
def checks_from(files):
    res = {}
    for f in files:
        cur = None
        for line in open(f):
            if line.startswith("## "):
                cur = line[3:].strip(); res.setdefault(cur, {})
            elif line.startswith("== ") and cur:
                p = line.split()
                first = line.split(";", 1)[1].strip()[:400] if ";" in line else ""
                prev = res[cur].get(p[1])
                ent = dict(rc=int(p[2].split("=")[1]), violations=int(p[3]), first=first, tier=os.path.basename(f))
                if prev is None or ent["rc"] == 1:
                    res[cur][p[1]] = ent
    return res
checks = checks_from(sys.argv[1:])
for i in range(1, 21):
    id_ = "C%02d" % i
    for m in ("m1", "m2"):
        src = "%s/%s/seeded/%s" % (SEED, id_, m)
        if not os.path.exists(src + "/patch.diff"): continue
        dst = "%s/%s-%s%s" % (OUT, id_, PREFIX, m)
        os.makedirs(dst, exist_ok=True)
        shutil.copy(src + "/patch.diff", dst + "/patch.diff")
        shutil.rmtree(dst + "/demo", ignore_errors=True)
        shutil.copytree(src + "/demo", dst + "/demo")
        for extra in glob.glob("%s/%s/seeded/go.mod" % (SEED, id_)):
            pass
        agent = {}
        try: agent = json.load(open(src + "/meta.json"))
        except Exception: pass
        json.dump(agent, open(dst + "/agent_meta.json", "w"), indent=1)
        meta = dict(property=id_, mutant=m, summary=agent.get("summary"), needs=agent.get("needs"), files_changed=agent.get("files_changed"),
                    demo_cmd=agent.get("demo_cmd"), confirmed=judged(id_, m),
                    what_i_ran=["scratch worktree " + SEED + "/%s at /repo HEAD: demo on clean tree; git apply patch.diff; go build ./...; go test -vet=off -count=1 ./... (up to 3 attempts, only segment.TestConcurrentReadersAndWriter / TestFrameCodecFuzz - load/random sensitive in the pinned suite - may fail); demo with the change; git checkout" % id_,
                                "tools/with_patch.sh patch.diff <tier> <checks> (git -C /repo apply; ./check ...; git -C /repo checkout -- .)"],
                    checks=checks.get("%s-%s%s" % (id_, PREFIX, m), {}))
        json.dump(meta, open(dst + "/meta.json", "w"), indent=1)
print("filed", len(glob.glob(OUT + "/*/meta.json")))
