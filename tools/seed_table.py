#!/usr/bin/env python3
"""Builds the markdown table of seeded changes from /verif/seeded/*/meta.json."""
import json, glob, os
rows = []
for p in sorted(glob.glob(os.path.join(os.path.dirname(os.path.abspath(__file__)), "..", "seeded", "*", "meta.json"))):
    d = json.load(open(p))
    name = os.path.basename(os.path.dirname(p))
    conf = d.get("confirmed", {})
    ok = all(conf.get(k) for k in ("builds", "suite_passes_with_change", "demo_passes_without_change", "demo_fails_with_change"))
    caught = [k for k, v in (d.get("checks") or {}).items() if v.get("rc") == 1]
    missed = [k for k, v in (d.get("checks") or {}).items() if v.get("rc") == 0]
    rows.append("| %s | %s | %s | %s | %s | %s |" % (name, (d.get("summary") or "")[:150].replace("|", "/").replace("\n", " "), (d.get("needs") or "")[:130].replace("|", "/").replace("\n", " "),
                                             "yes" if ok else "NO: %s" % conf, ", ".join(caught) or "-", ", ".join(missed) or "-"))
print("| seeded change | what it does | needs | confirmed | caught by | run but silent |")
print("|---|---|---|---|---|---|")
print("\n".join(rows))
