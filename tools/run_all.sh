#!/bin/bash
# usage: tools/run_all.sh [tier] — runs every registered check sequentially, one summary line each.
tier="${1:-quick}"
cd "$(dirname "$(readlink -f "$0")")/.."
for id in $(python3 -c "import json;print(' '.join(c['property_id'] for c in json.load(open('MANIFEST.json'))['checks']))"); do
  out=$(./check "$id" --tier "$tier" 2>&1); rc=$?
  echo "$(echo "$out" | grep "^$id tier=" | tail -1) rc=$rc"
  echo "$out" | grep -E "^(VIOLATION|INCONCLUSIVE|coverage gaps)" | cut -c1-300
done
