#!/bin/bash
# usage: tools/eval_seed_a.sh <ID> <mN> "<demo cmd>"  -> verifies in the scratch worktree, writes /tmp/seed/<ID>.<mN>.verify.json
ID="$1"; M="$2"; DEMO="$3"
SEEDROOT=${SEEDROOT:-/tmp/seed}; wt=$SEEDROOT/$ID; src=$wt/seeded/$M
export GOFLAGS=-mod=mod GOPROXY=off GOSUMDB=off GOTOOLCHAIN=local
cd "$wt" || exit 2
git checkout -- . 2>/dev/null
bash -c "$DEMO" > $SEEDROOT/$ID.$M.demo_clean.log 2>&1; demo_clean=$?
git checkout -- . 2>/dev/null; git clean -fdq -e seeded >/dev/null 2>&1
if ! git apply "$src/patch.diff"; then echo "{\"id\":\"$ID-$M\",\"error\":\"patch does not apply\"}" > $SEEDROOT/$ID.$M.verify.json; exit 2; fi
go build ./... > $SEEDROOT/$ID.$M.build.log 2>&1; build=$?
suite=1
for attempt in 1 2 3; do
  go test -vet=off -count=1 ./... > $SEEDROOT/$ID.$M.suite.log 2>&1; suite=$?
  [ $suite -eq 0 ] && break
  # the pinned suite has two load/randomness-sensitive segment tests; only those may fail
  if grep -E "^--- FAIL" $SEEDROOT/$ID.$M.suite.log | grep -vqE "TestConcurrentReadersAndWriter|TestFrameCodecFuzz"; then break; fi
done
bash -c "$DEMO" > $SEEDROOT/$ID.$M.demo_mut.log 2>&1; demo_mut=$?
git checkout -- . ; git clean -fdq -e seeded >/dev/null 2>&1
echo "{\"id\":\"$ID-$M\",\"build\":$build,\"suite\":$suite,\"demo_clean\":$demo_clean,\"demo_mut\":$demo_mut,\"suite_fail\":\"$(grep -E '^--- FAIL' $SEEDROOT/$ID.$M.suite.log | head -3 | tr '\n' ' ' | tr -d '"')\"}" > $SEEDROOT/$ID.$M.verify.json
cat $SEEDROOT/$ID.$M.verify.json
