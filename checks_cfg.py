# Per-property check configuration used by ./check. Each job is one test
# binary invocation pattern, sharded by rapid seed.
#   pkg: package under harness/; run: -test.run regex; checks_*: rapid cases per shard;
#   shards_*: parallel processes; timeout_*: seconds (a timeout is "inconclusive").

COMMON_ASSUME = [
    "generated-input search: absence of a violation is evidence over the explored cases only, not a proof",
]

SIM_ASSUME = [
    "SimFS implements the VFS durability contract the WAL core assumes (cache vs disk, 8-byte torn chunks, volatile directory entries); the production fs/metadb layer is checked against that contract separately by C07",
    "SimMeta commits are atomic and durable on return (bbolt's guarantee is the trusted base)",
]

CHECKS = {
    "C05": dict(
        level="exploration",
        technique="model-based stateful property testing (rapid) against a contiguous-log reference model; bounded exhaustive enumeration of short op sequences in the thorough tier",
        rule="rapid-generated op sequences (append/invalid append/DeleteRange by position class/GetLog/reopen) over segment sizes {1..1MiB} on SimFS and on the real fs+bbolt stack; after every step bounds and a GetLog window are compared with the model. Non-trivial = the sequence contains a reopen after a structural change, or a truncation followed by a read outside the new bounds; distinct = FNV-64 of the serialised case",
        expect_classes=["del-head", "del-tail", "del-everything", "del-middle", "bad-append", "one-entry-segments",
                        "append-empty-nonone", "append-after-empty", "reopen-after-structural", "read-outside-after-trunc"],
        assumptions=COMMON_ASSUME + SIM_ASSUME + ["background rotation is awaited after each append so that sequential results are deterministic"],
        jobs=[
            dict(pkg="seq", run="TestC05Sim", checks_quick=400, checks_thorough=6000, shards_quick=8, shards_thorough=16, timeout_quick=300, timeout_thorough=1800),
            dict(pkg="seq", run="TestC05Real", checks_quick=40, checks_thorough=600, shards_quick=4, shards_thorough=8, timeout_quick=300, timeout_thorough=1800),
        ],
    ),
}
