# Per-property check configuration used by ./check. Each job is one test
# binary invocation pattern, sharded by rapid seed.
#   pkg: package under harness/; run: -test.run regex; checks_*: rapid cases per shard;
#   shards_*: parallel processes; timeout_*: seconds (a timeout is "inconclusive").

COMMON_ASSUME = [
    "generated-input search: absence of a violation is evidence over the explored cases only, not a proof",
]

SIM_ASSUME = [
    "SimFS implements the VFS durability contract the WAL core assumes (cache vs disk, 8-byte torn chunks, volatile directory entries); the production fs/metadb layer is checked against that contract separately by C07",
    "SimMeta commits are atomic and durable on return (bbolt's guarantee is the trusted base)",
]

CHECKS = {
    "C05": dict(
        level="exploration",
        technique="model-based stateful property testing (rapid) against a contiguous-log reference model; bounded exhaustive enumeration of short op sequences in the thorough tier",
        rule="rapid-generated op sequences (append/invalid append/DeleteRange by position class/GetLog/reopen) over segment sizes {1..1MiB} on SimFS and on the real fs+bbolt stack; after every step bounds and a GetLog window are compared with the model. Non-trivial = the sequence contains a reopen after a structural change, or a truncation followed by a read outside the new bounds; distinct = FNV-64 of the serialised case",
        expect_classes=["del-head", "del-tail", "del-everything", "del-middle", "bad-append", "one-entry-segments",
                        "append-empty-nonone", "append-after-empty", "reopen-after-structural", "read-outside-after-trunc"],
        assumptions=COMMON_ASSUME + SIM_ASSUME + ["background rotation is awaited after each append so that sequential results are deterministic"],
        jobs=[
            dict(pkg="seq", run="TestC05Sim", checks_quick=400, checks_thorough=6000, shards_quick=8, shards_thorough=16, timeout_quick=300, timeout_thorough=1800),
            dict(pkg="seq", run="TestC05Real", checks_quick=40, checks_thorough=600, shards_quick=4, shards_thorough=8, timeout_quick=300, timeout_thorough=1800),
        ],
    ),
    "C12": dict(
        level="exploration",
        technique="property-based round-trip and differential testing (rapid): production codec vs an independent encoder written from the documented format; held-result aliasing check through a real WAL on SimFS; codec-identity matrix",
        rule="rapid-generated raft.Log values (varint boundary Index/Term, any Type, nil/empty/boundary-length Data and Extensions around 64KiB, zero/UTC/zoned/monotonic times) checked for Decode(Encode(l))==l and byte equality with the reference encoder; WAL store/read with a held GetLog result compared after 1-50 later reads and scribbling; codec-ID matrix (default, reserved, custom; same vs different on reopen). Non-trivial = a boundary-valued field or a slice crossing 64KiB, every aliasing and codec-ID case; distinct = FNV-64 of the serialised case",
        expect_classes=["codec-boundary-value", "crosses-64KiB", "time-zone", "time-mono", "reserved-id", "different-codec", "same-codec-custom=true", "same-codec-custom=false"],
        assumptions=COMMON_ASSUME + SIM_ASSUME + ["AppendedAt domain = times that the Go standard library itself round-trips through MarshalBinary/UnmarshalBinary (it does not for zone offsets with a negative seconds component)", "a time with a monotonic reading can only be produced from time.Now(); its wall value does not influence the verdict"],
        jobs=[
            dict(pkg="seq", run="TestC12Codec", checks_quick=4000, checks_thorough=100000, shards_quick=4, shards_thorough=16, timeout_quick=300, timeout_thorough=1800),
            dict(pkg="seq", run="TestC12Alias", checks_quick=300, checks_thorough=5000, shards_quick=4, shards_thorough=16, timeout_quick=300, timeout_thorough=1800),
            dict(pkg="seq", run="TestC12CodecID", checks_quick=400, checks_thorough=4000, shards_quick=2, shards_thorough=8, timeout_quick=300, timeout_thorough=1800),
            dict(kind="gofuzz", pkg="dmg", fuzz="FuzzDecode", thorough_only=True, fuzztime_thorough="60s", workers=8, timeout=600),
        ],
    ),
    "C15": dict(
        level="exploration",
        technique="property-based boundary-value testing (rapid): entry encodings solved to exact sizes around each documented boundary; oracle = accept-then-readable (before and after reopen) or refuse-and-invisible",
        rule="batches whose entries have exact encoded sizes drawn from neighbourhoods of 0..24, 64KiB+-24, segmentSize+-48 (entries larger than a whole segment included), MaxEntrySize {-4096,-1,0,+1,+4096}, crossed with segment sizes {64,4096,64KiB,1MiB,64MiB}, batch position and pre/post appends, on SimFS and the real fs. Non-trivial = some entry within 16 bytes of a named boundary; distinct = FNV-64 of the case",
        expect_classes=["entry-larger-than-segment", "near-64KiB", "near-MaxEntrySize+0", "near-MaxEntrySize+1", "near-MaxEntrySize-1", "batch-refused"],
        assumptions=COMMON_ASSUME + SIM_ASSUME + ["batches whose total size exceeds 4GiB (uint32 file offsets) are not generated"],
        jobs=[
            dict(pkg="seq", run="TestC15Sim", checks_quick=250, checks_thorough=4000, shards_quick=6, shards_thorough=16, timeout_quick=300, timeout_thorough=1800),
            dict(pkg="seq", run="TestC15Real", checks_quick=40, checks_thorough=600, shards_quick=2, shards_thorough=4, timeout_quick=300, timeout_thorough=1800),
            dict(pkg="seq", run="TestC15Big", checks_quick=6, checks_thorough=30, shards_quick=2, shards_thorough=4, shrinktime="5s", timeout_quick=400, timeout_thorough=1800),
        ],
    ),
    "C20": dict(
        level="exploration",
        technique="model-based stateful property testing (rapid) of every counter against true totals computed by the reference model, with the panicking AtomicCollector as undeclared-name oracle; plus an exhaustive go/parser scan of every emitting call site against MetricDefinitions",
        rule="rapid-generated op sequences (appends, invalid appends, DeleteRange incl. (0,x) and everything-deleting on 1-entry segments, reads, stable Set/Get/Uint64, reopen) on SimFS with metrics.NewAtomicCollector(wal.MetricDefinitions); after every step all counters must equal the totals derived from the model (entries, reference-encoded bytes, calls, rotations seen in committed metadata, entries actually removed). Non-trivial = a truncation that empties the log or meets an empty tail segment; distinct = FNV-64 of the case. The call-site scan is exhaustive over non-test sources",
        expect_classes=["rotation", "failed-append", "truncation-emptied-log", "truncation-met-empty-tail", "del-from-zero-noop"],
        assumptions=COMMON_ASSUME + SIM_ASSUME + ["metric names passed as non-literals cannot be decided by the scan (none today; counted as callsite-nonliteral-undecidable)"],
        jobs=[
            dict(pkg="seq", run="TestC20Counters", checks_quick=500, checks_thorough=8000, shards_quick=6, shards_thorough=16, timeout_quick=300, timeout_thorough=1800),
            dict(pkg="seq", run="TestC20CallSites|TestC20GoMetrics", rapid=False, shards=1, timeout=120),
        ],
    ),
    "C16": dict(
        level="exploration",
        technique="property-based testing (rapid) of generated multi-node replication histories around verifier.LogStore; oracle = ground-truth equality between what each node holds and what the leader checksummed",
        rule="rapid-generated histories on 2-4 nodes (inner store InmemStore or WAL on SimFS): leader appends with checkpoints, replication in arbitrary batch splits and lags, leadership changes with conflicting suffixes (follower DeleteRange + re-append), middleware restarts, head truncations, snapshot installs, index-1 configuration entries; every delivered VerificationReport is judged: node holds the range exactly as the leader wrote it => Err must be nil; node lacks part of it => ErrRangeMismatch. Each node is quiesced before its next mutation. Non-trivial = a history in which a judged report follows a restart, head truncation or tail truncation on that node since its previous checkpoint; distinct = FNV-64 of the case",
        expect_classes=["clean-range-verified", "range-not-held", "report-after-restart", "report-after-headtrunc", "report-after-tailtrunc", "leader-change", "conflict-suffix-truncated", "multi-entry-replication-batch", "snapshot-install"],
        assumptions=COMMON_ASSUME + ["ranges are not modified while their verification runs (the harness waits for delivered+dropped == checkpoints_written before the next mutation of a node)", "raft never re-uses an index except after a tail truncation of it (the simulated cluster keeps a logical last index across head truncations)"],
        jobs=[dict(pkg="cluster", run="TestC16NoFalseAlarm", checks_quick=600, checks_thorough=12000, shards_quick=8, shards_thorough=16, timeout_quick=300, timeout_thorough=1800)],
    ),
    "C17": dict(
        level="exploration",
        technique="property-based mutation testing of replication histories (rapid): one generated single-field divergence per case, in flight or at rest, judged against ground truth",
        rule="a clean generated history, then checkpoint cp0, window entries and checkpoint cp1 with exactly one effective mutation inside [cp0,cp1): position {first,middle,last} x field {index(at rest),term,type,data flip/trunc/extend/replace,extensions flip/extend,swap of adjacent entries} x mode {in flight to a follower, at rest on follower or leader}. The report for that range on that node must carry ErrChecksumMismatch, and may blame in-flight corruption only if the node was really handed an altered entry. Excluded: the index-1 configuration entry, mutations that change no hashed byte. Non-trivial = every case whose mutation is effective and whose report was delivered; distinct = FNV-64 of the case",
        expect_classes=["mut:follower/inflight/first", "mut:follower/inflight/middle", "mut:follower/inflight/last", "mut:follower/atrest/first", "mut:follower/atrest/middle", "mut:follower/atrest/last", "mut:leader/atrest/first", "mut:leader/atrest/middle", "mut:leader/atrest/last"] + ["field:" + f for f in ["index", "term", "type", "data-flip", "data-trunc", "data-extend", "data-replace", "ext-flip", "ext-extend", "swap"]],
        assumptions=COMMON_ASSUME + ["detection is asserted up to 64-bit FNV-1a collisions; two-field changes that move a byte between Data and Extensions hash identically by construction of checksumLog and are outside the single-field quantifier"],
        jobs=[dict(pkg="cluster", run="TestC17Detects", checks_quick=800, checks_thorough=15000, shards_quick=8, shards_thorough=16, timeout_quick=300, timeout_thorough=1800)],
    ),
    "C18": dict(
        level="exploration",
        technique="differential (twin-run) property testing of verifier.LogStore against an identical bare store, plus a generated schedule of checkpoint arrivals vs releases of a blocked ReportFn with exact report/drop accounting",
        rule="(a) rapid op sequences (appends with 0-3 checkpoints, checkpoints carrying foreign Extensions, invalid appends, head/tail/middle/no-op DeleteRange) applied through the middleware and directly to a twin store (InmemStore or WAL on SimFS): identical nil/non-nil errors, bounds and entries, except 24 bytes of metadata on leader checkpoints and refusal of foreign-extension checkpoints. (b) ReportFn blocked on harness tokens: interleaved appends of batches with checkpoints and token releases; every StoreLogs must return while blocked (stack evidence if not), delivered+dropped == checkpoints, delivered ranges are triggered ranges in order, SkippedRange == [prev.End, next.Start) after drops. Non-trivial = (a) a sequence with a checkpoint and a rejected call, (b) a drop followed by a delivery; distinct = FNV-64 of the case",
        expect_classes=["foreign-checkpoint", "has-checkpoint", "rejected-call", "has-drop", "delivery-after-drop"],
        assumptions=COMMON_ASSUME + ["a StoreLogs that has not returned after 20s with a goroutine parked inside verifier.StoreLogs/triggerVerify is judged blocked (stack evidence, not the timeout alone)"],
        jobs=[
            dict(pkg="cluster", run="TestC18Twin", checks_quick=500, checks_thorough=10000, shards_quick=6, shards_thorough=16, timeout_quick=300, timeout_thorough=1800),
            dict(pkg="cluster", run="TestC18Blocked", checks_quick=500, checks_thorough=10000, shards_quick=4, shards_thorough=16, timeout_quick=300, timeout_thorough=1800),
        ],
    ),
    "C19": dict(
        level="exploration",
        technique="property-based testing (rapid) of migrate.CopyLogs/CopyStable over generated source contents, batch sizes, store pairings and cancellation points; oracle = entry-wise equality with the source, prefix property, closed progress channel",
        rule="sources of 0-60 entries starting at {1,2,1000,2^40}, entry sizes 0-5000, batchBytes in {-1,0,1,entry size +-1, sums +-1, 2^30}, source/destination in {WAL on SimFS, WAL on real dir, InmemStore, BoltStore v1, BoltStore v2}, progress in {nil, drained, unbuffered never read}, cancellation during the k-th GetLog; CopyStable over set/unset standard and extra keys. Non-trivial = empty source, or a split into >=1 full batch plus a remainder, or a cancellation strictly inside the copy, or a stable copy with at least one set key; distinct = FNV-64 of the case",
        expect_classes=["empty-source", "split-with-remainder", "cancel-inside", "first-not-1", "stable-copied", "extra-keys", "cancelled", "store-error-passthrough"],
        assumptions=COMMON_ASSUME + ["AppendedAt is compared as an instant (stores other than the WAL do not keep the zone)", "errors returned by a source/destination store (e.g. InmemStore/BoltStore 'not found' for unset stable keys) are pass-through, not defects of CopyStable"],
        jobs=[
            dict(pkg="migr", run="TestC19CopyLogs", checks_quick=200, checks_thorough=3000, shards_quick=8, shards_thorough=16, timeout_quick=400, timeout_thorough=2400),
            dict(pkg="migr", run="TestC19CopyStable", checks_quick=150, checks_thorough=2000, shards_quick=4, shards_thorough=8, timeout_quick=400, timeout_thorough=2400),
        ],
    ),
    "C01": dict(
        level="fault_enumeration",
        technique="crash-point enumeration over rapid-generated workloads on the composed WAL (real segment code on SimFS+SimMeta): every sampled mutating I/O event x torn-write subset, nested crashes, allowed-post-crash-state oracle from acknowledgements",
        rule="rapid-generated workloads (appends of 1-5 entries with sizes around 0/8/segment/3/segment, head/tail/everything DeleteRange, stable Set, clean reopen) over segment sizes {1..4096}; 0-3 earlier phases each ended by a crash at a generated event with a generated torn subset, then the final phase is re-executed with a crash after each chosen event k (all k in thorough; <=32 incl. all neighbours of CommitState/Create/Unlink in quick) x 9 (quick) / 15 (thorough) tear plans (none, all, prefix, suffix, allButFirst, allButLast, onlyLast, drawn masks; directory entries kept/lost; preallocated length kept/lost). Verdict: after every recovery Open succeeds and every acknowledged entry not covered by an acknowledged/in-flight DeleteRange reads back equal, within [FirstIndex,LastIndex]; acknowledged stable keys keep their value. Non-trivial = a crash variant with at least one acknowledged append before it and something volatile (un-synced write or pending directory entry) at the crash; distinct = FNV-64 of (case, k, tear#)",
        expect_classes=["crash-in-append", "crash-in-del", "crash-in-open", "crash-in-background-or-between-ops", "crash-in-set", "clean-reopen", "head-trunc", "tail-trunc", "nested-depth>=2", "nested-depth>=3", "crash-after-CommitState", "crash-after-Create", "crash-after-WriteAt", "crash-after-SyncFile", "crash-after-SyncDir", "crash-after-Unlink", "crash-after-UnlinkDirSync"],
        assumptions=COMMON_ASSUME + SIM_ASSUME + ["crash model = the one the properties name: every subset of 8-byte-aligned chunks of un-synced writes, pending directory operations kept or lost, file length; garbled sector contents are not generated", "mutating I/O is issued by one goroutine at a time (the harness waits for the background rotation after each append), so event numbering is deterministic"],
        jobs=[dict(pkg="crash", run="TestCrashC01", checks_quick=30, checks_thorough=500, shards_quick=16, shards_thorough=16, shrinktime="15s", timeout_quick=600, timeout_thorough=3000)],
    ),
    "C02": dict(
        level="fault_enumeration",
        technique="crash-point enumeration over rapid-generated workloads on the composed WAL (real segment code on SimFS+SimMeta): every sampled mutating I/O event x torn-write subset, nested crashes, allowed-post-crash-state oracle from acknowledgements",
        rule="rapid-generated workloads (appends of 1-5 entries with sizes around 0/8/segment/3/segment, head/tail/everything DeleteRange, stable Set, clean reopen) over segment sizes {1..4096}; 0-3 earlier phases each ended by a crash at a generated event with a generated torn subset, then the final phase is re-executed with a crash after each chosen event k (all k in thorough; <=32 incl. all neighbours of CommitState/Create/Unlink in quick) x 9 (quick) / 15 (thorough) tear plans (none, all, prefix, suffix, allButFirst, allButLast, onlyLast, drawn masks; directory entries kept/lost; preallocated length kept/lost). Generator profile: 70% hostile payloads (8-byte words that look like entry/index/commit frame headers, aligned to file words), size coupling with earlier batches, phases ending with an append torn in flight, chains of up to 4 crash/recover/append rounds. Verdict: recovered [first,last] is contiguous, every entry readable and equal to the latest submission for its index, the in-flight batch is present in full or absent, i.e. the recovered state is one of {acknowledged, acknowledged+in-flight}. Non-trivial = a crash variant with an acknowledged append before it and something volatile at the crash; distinct = FNV-64 of (case, k, tear#)",
        expect_classes=["crash-in-append", "crash-in-del", "crash-in-open", "crash-in-background-or-between-ops", "crash-in-set", "clean-reopen", "head-trunc", "tail-trunc", "nested-depth>=2", "nested-depth>=3", "crash-after-CommitState", "crash-after-Create", "crash-after-WriteAt", "crash-after-SyncFile", "crash-after-SyncDir", "crash-after-Unlink", "crash-after-UnlinkDirSync", "phase-crash-torn-last-write", "nested-depth>=4"],
        assumptions=COMMON_ASSUME + SIM_ASSUME + ["crash model = the one the properties name: every subset of 8-byte-aligned chunks of un-synced writes, pending directory operations kept or lost, file length; garbled sector contents are not generated", "mutating I/O is issued by one goroutine at a time (the harness waits for the background rotation after each append), so event numbering is deterministic"],
        jobs=[dict(pkg="crash", run="TestCrashC02", checks_quick=30, checks_thorough=500, shards_quick=16, shards_thorough=16, shrinktime="15s", timeout_quick=600, timeout_thorough=3000)],
    ),
    "C03": dict(
        level="fault_enumeration",
        technique="crash-point enumeration over rapid-generated workloads on the composed WAL (real segment code on SimFS+SimMeta): every sampled mutating I/O event x torn-write subset, nested crashes, allowed-post-crash-state oracle from acknowledgements",
        rule="rapid-generated workloads (appends of 1-5 entries with sizes around 0/8/segment/3/segment, head/tail/everything DeleteRange, stable Set, clean reopen) over segment sizes {1..4096}; 0-3 earlier phases each ended by a crash at a generated event with a generated torn subset, then the final phase is re-executed with a crash after each chosen event k (all k in thorough; <=32 incl. all neighbours of CommitState/Create/Unlink in quick) x 9 (quick) / 15 (thorough) tear plans (none, all, prefix, suffix, allButFirst, allButLast, onlyLast, drawn masks; directory entries kept/lost; preallocated length kept/lost). Verdict: Open succeeds on every image and the recovered WAL passes a usability script (append at last+1, Set, head and tail DeleteRange, re-append, Close/Open, append) whose effects survive one more power loss that drops everything un-synced. Non-trivial = a crash variant with an acknowledged append before it and something volatile at the crash; distinct = FNV-64 of (case, k, tear#)",
        expect_classes=["crash-in-append", "crash-in-del", "crash-in-open", "crash-in-background-or-between-ops", "crash-in-set", "clean-reopen", "head-trunc", "tail-trunc", "nested-depth>=2", "nested-depth>=3", "crash-after-CommitState", "crash-after-Create", "crash-after-WriteAt", "crash-after-SyncFile", "crash-after-SyncDir", "crash-after-Unlink", "crash-after-UnlinkDirSync"],
        assumptions=COMMON_ASSUME + SIM_ASSUME + ["crash model = the one the properties name: every subset of 8-byte-aligned chunks of un-synced writes, pending directory operations kept or lost, file length; garbled sector contents are not generated", "mutating I/O is issued by one goroutine at a time (the harness waits for the background rotation after each append), so event numbering is deterministic"],
        jobs=[dict(pkg="crash", run="TestCrashC03", checks_quick=30, checks_thorough=500, shards_quick=16, shards_thorough=16, shrinktime="15s", timeout_quick=600, timeout_thorough=3000)],
    ),
    "C04": dict(
        level="fault_enumeration",
        technique="crash-point enumeration over rapid-generated workloads on the composed WAL (real segment code on SimFS+SimMeta): every sampled mutating I/O event x torn-write subset, nested crashes, allowed-post-crash-state oracle from acknowledgements",
        rule="rapid-generated workloads (appends of 1-5 entries with sizes around 0/8/segment/3/segment, head/tail/everything DeleteRange, stable Set, clean reopen) over segment sizes {1..4096}; 0-3 earlier phases each ended by a crash at a generated event with a generated torn subset, then the final phase is re-executed with a crash after each chosen event k (all k in thorough; <=32 incl. all neighbours of CommitState/Create/Unlink in quick) x 9 (quick) / 15 (thorough) tear plans (none, all, prefix, suffix, allButFirst, allButLast, onlyLast, drawn masks; directory entries kept/lost; preallocated length kept/lost). Generator profile: 45% truncations (prefix inside head segment, whole segments, everything; suffix inside tail, whole segments), re-appends of different content at the same indexes. Verdict: acknowledged DeleteRange stays applied; an in-flight DeleteRange is fully applied or not at all (bounds and contents equal the before or the after model); re-appended indexes never show the older acknowledged generation. Non-trivial = a crash variant with an acknowledged append before it and something volatile at the crash; distinct = FNV-64 of (case, k, tear#)",
        expect_classes=["crash-in-append", "crash-in-del", "crash-in-open", "crash-in-background-or-between-ops", "crash-in-set", "clean-reopen", "head-trunc", "tail-trunc", "nested-depth>=2", "nested-depth>=3", "crash-after-CommitState", "crash-after-Create", "crash-after-WriteAt", "crash-after-SyncFile", "crash-after-SyncDir", "crash-after-Unlink", "crash-after-UnlinkDirSync"],
        assumptions=COMMON_ASSUME + SIM_ASSUME + ["crash model = the one the properties name: every subset of 8-byte-aligned chunks of un-synced writes, pending directory operations kept or lost, file length; garbled sector contents are not generated", "mutating I/O is issued by one goroutine at a time (the harness waits for the background rotation after each append), so event numbering is deterministic"],
        jobs=[dict(pkg="crash", run="TestCrashC04", checks_quick=30, checks_thorough=500, shards_quick=16, shards_thorough=16, shrinktime="15s", timeout_quick=600, timeout_thorough=3000)],
    ),
    "C13": dict(
        level="fault_enumeration",
        technique="crash-point enumeration over rapid-generated workloads on the composed WAL (real segment code on SimFS+SimMeta): every sampled mutating I/O event x torn-write subset, nested crashes, allowed-post-crash-state oracle from acknowledgements",
        rule="rapid-generated workloads (appends of 1-5 entries with sizes around 0/8/segment/3/segment, head/tail/everything DeleteRange, stable Set, clean reopen) over segment sizes {1..4096}; 0-3 earlier phases each ended by a crash at a generated event with a generated torn subset, then the final phase is re-executed with a crash after each chosen event k (all k in thorough; <=32 incl. all neighbours of CommitState/Create/Unlink in quick) x 9 (quick) / 15 (thorough) tear plans (none, all, prefix, suffix, allButFirst, allButLast, onlyLast, drawn masks; directory entries kept/lost; preallocated length kept/lost). Verdict (crash part): after every successful Open the directory holds exactly the files of the segments in committed metadata; Create never hits an existing name; no segment ID is created again after it was retired from metadata or under a different base index. Reclamation part (sched.TestC13Pinned): 0-4 readers are parked inside the ReadAt of their GetLog (SimFS gate) while a head/tail/everything DeleteRange runs: it must return without waiting for them, the pinned reads then finish with a correct entry / not-found / an error only for removed indexes, and afterwards the directory equals the metadata's file set, no wholly-deleted segment is listed and exactly one handle per live segment is open. Non-trivial = a crash variant with an acknowledged append before it and something volatile at the crash; distinct = FNV-64 of (case, k, tear#)",
        expect_classes=["crash-in-append", "crash-in-del", "crash-in-open", "crash-in-background-or-between-ops", "crash-in-set", "clean-reopen", "head-trunc", "tail-trunc", "nested-depth>=2", "nested-depth>=3", "crash-after-CommitState", "crash-after-Create", "crash-after-WriteAt", "crash-after-SyncFile", "crash-after-SyncDir", "crash-after-Unlink", "crash-after-UnlinkDirSync", "truncation-with-pinned-reader", "files-deleted", "trunc:head", "trunc:tail", "trunc:all"],
        assumptions=COMMON_ASSUME + SIM_ASSUME + ["crash model = the one the properties name: every subset of 8-byte-aligned chunks of un-synced writes, pending directory operations kept or lost, file length; garbled sector contents are not generated", "mutating I/O is issued by one goroutine at a time (the harness waits for the background rotation after each append), so event numbering is deterministic"],
        jobs=[dict(pkg="crash", run="TestCrashC13", checks_quick=30, checks_thorough=500, shards_quick=16, shards_thorough=16, shrinktime="15s", timeout_quick=600, timeout_thorough=3000),
              dict(pkg="sched", run="TestC13Pinned", checks_quick=40, checks_thorough=800, shards_quick=6, shards_thorough=16, shrinktime="20s", timeout_quick=600, timeout_thorough=3000)],
    ),
    "C10": dict(
        level="fault_enumeration",
        technique="I/O fault enumeration over rapid-generated workloads on SimFS/SimMeta: each selected VFS/MetaStore call (and pairs) fails transiently or persistently, with partial writes; oracle = in-process model after every step and the set of allowed states (each failed call applied in full or not at all) after reopen",
        rule="rapid-generated workloads (appends, head/tail/everything DeleteRange, stable Set, reopen, immediate retry of the failed call) over segment sizes {1..512}; a fault-free pass counts calls per kind, then one or two calls chosen by (kind, ordinal) among WriteAt (fail before / after a partial write), SyncFile, SyncDir, Create, Unlink, CommitState, SetStable, ListDir, OpenReader, OpenWriter, Load fail once or until healed; the workload continues from the observed in-process bounds, faults are cleared, the WAL is closed and reopened. Non-trivial = the fault was hit, a call returned an error and at least one later mutating call succeeded before the reopen; distinct = FNV-64 of the case",
        expect_classes=["failed-append", "failed-delete", "fault-in-open", "retry-after-failure", "reopen"] + ["fault:%s/%s" % (k, m) for k in ["WriteAt", "SyncFile", "SyncDir", "Create", "Unlink", "CommitState", "ListDir", "OpenReader", "OpenWriter", "Load"] for m in ["transient", "persistent"]],
        assumptions=COMMON_ASSUME + SIM_ASSUME + ["a failed CommitState is clean (not committed): the MetaStore contract is atomic; ambiguous commit results are not generated", "availability is not asserted: after a fault the WAL may refuse writes until reopened"],
        jobs=[dict(pkg="fault", run="TestC10Faults", checks_quick=800, checks_thorough=20000, shards_quick=16, shards_thorough=16, timeout_quick=600, timeout_thorough=3000)],
    ),
    "C11": dict(
        level="exploration",
        technique="structured mutation fuzzing (rapid, seed-deterministic) of valid directories built by real workloads: segment files, index blocks, frame/length fields, the metadata record and codec payloads; oracles inside the target: recovered panic, SimFS read budget (unbounded loop), allocation bound, must-error rules, flock/descriptor probes after a failed Open; native go test -fuzz of the same targets in the thorough tier",
        rule="a valid multi-segment directory is built by a generated workload (segment sizes 128..4096, head/tail truncations) and then damaged by 1-3 generated mutations: bit flip, byte set, zero run, truncation (incl. below the 32-byte header), splice from another file, frame duplication, frame-type edit, length-field edit with hostile constants (2^26+-1, 2^31, 2^32-1), index-block edit, header swap, garbage, removal; metadata record: duplicate BaseIndex, unsealed-not-last, sealed tail, zero BaseIndex, IndexStart/SizeLimit/Max edits, swapped/dropped segments, NextSegmentID, codec, textual flips/truncation/garbage. Targets: wal.Open + read sweep + StoreLogs + DumpLogs; Filer.RecoverTail/Open/DumpSegment per segment; BinaryCodec.Decode vs a strict reference decoder; production fs+bbolt stack for lock/descriptor leaks after a failed Open. Non-trivial = the mutation changed bytes the code reads (effective mutation); distinct = FNV-64 of the case",
        expect_classes=["open-error", "open-ok", "recover-ok", "recover-error", "sealed-open-error", "structurally-invalid", "real-open-failed:remove", "real-open-failed:trunc", "real-open-failed:hdr"] + ["mut:" + k for k in ["flip", "frameflip", "lenedit", "typeedit", "zero", "trunc", "splice", "dupframe", "indexedit", "hdrswap", "garbage", "remove", "meta-dupbase", "meta-unsealmid", "meta-sealtail", "meta-zerobase", "meta-indexstart", "meta-minmax", "meta-drop", "meta-textflip", "meta-texttrunc"]],
        assumptions=COMMON_ASSUME + SIM_ASSUME + ["allocation bound per call = 4 x directory bytes + 2 x MaxEntrySize + 4MiB, measured with runtime.MemStats.TotalAlloc on a single goroutine", "a loop is judged unbounded when one file handle serves more than 64 + size/2 ReadAt calls", "payload corruption inside a sealed segment is not detectable by the WAL (no per-read CRC, README) and is not asserted"],
        jobs=[
            dict(pkg="dmg", run="TestC11OpenDir", checks_quick=250, checks_thorough=6000, shards_quick=8, shards_thorough=16, timeout_quick=600, timeout_thorough=3000),
            dict(pkg="dmg", run="TestC11Meta", checks_quick=250, checks_thorough=5000, shards_quick=4, shards_thorough=16, timeout_quick=600, timeout_thorough=3000),
            dict(pkg="dmg", run="TestC11Segments", checks_quick=250, checks_thorough=6000, shards_quick=6, shards_thorough=16, timeout_quick=600, timeout_thorough=3000),
            dict(pkg="dmg", run="TestC11Decode", checks_quick=2000, checks_thorough=50000, shards_quick=2, shards_thorough=8, timeout_quick=600, timeout_thorough=3000),
            dict(pkg="dmg", run="TestC11Lock", checks_quick=25, checks_thorough=300, shards_quick=4, shards_thorough=8, timeout_quick=600, timeout_thorough=3000),
            dict(kind="gofuzz", pkg="dmg", fuzz="FuzzDecode", thorough_only=True, fuzztime_thorough="60s", workers=8, timeout=600),
            dict(kind="gofuzz", pkg="dmg", fuzz="FuzzRecoverTail", thorough_only=True, fuzztime_thorough="90s", workers=8, timeout=600),
            dict(kind="gofuzz", pkg="dmg", fuzz="FuzzSealedReader", thorough_only=True, fuzztime_thorough="60s", workers=8, timeout=600),
        ],
    ),
    "C09": dict(
        level="exploration",
        technique="differential property testing (rapid): every segment file written by generated workloads is decoded and re-encoded byte-for-byte by an independent codec written from the README, on SimFS and on the production fs+bbolt stack (bolt record read with bbolt directly); plus golden directories written once by the pinned version",
        rule="rapid-generated histories (batches of 1-5 entries covering every padding residue 0-7 and sizes up to 1000, head/tail/everything truncations, reopen) over segment sizes {64..65536}; after every step each live file must parse per the README (aligned zero-padded frames, zero reserved bytes, header == file name == metadata, one commit per acknowledged batch with CRC-32C over the bytes since the previous commit, index offsets == entry frame offsets, metadata IndexStart == index payload offset, Min/Max ranges tiling the model) and equal the README encoding of the model's batches up to the last commit. 9 golden directories from snapshot 26a95c4 must parse, re-encode, open with identical contents and accept an append. Non-trivial = a history with >= 2 batches and a non-zero padding residue (and each golden directory); distinct = FNV-64 of the case",
        expect_classes=["has-sealed-segment", "many-padding-residues"] + ["golden:" + g for g in ["plain", "multi-segment", "head-truncated-in-segment", "tail-truncated-reappended", "everything-deleted", "everything-deleted-reappended", "high-start-index", "large-entry-over-64KiB", "stable-keys"]],
        assumptions=COMMON_ASSUME + SIM_ASSUME + ["the first commit's CRC covers the file header as well (the README's 'or just after the file header' is read as the start of the bytes written since the last fsync; the golden fixtures of the pinned version decide)", "the bolt bucket is named wal-meta (the README prose says wal-state; the pinned version and the golden fixtures are the reference)", "when a segment seals is taken from the observed metadata, not predicted"],
        jobs=[
            dict(pkg="fmtchk", run="TestC09Sim", checks_quick=300, checks_thorough=6000, shards_quick=8, shards_thorough=16, timeout_quick=600, timeout_thorough=3000),
            dict(pkg="fmtchk", run="TestC09Real", checks_quick=30, checks_thorough=500, shards_quick=4, shards_thorough=8, timeout_quick=600, timeout_thorough=3000),
            dict(pkg="fmtchk", run="TestC09Golden", rapid=False, shards=1, timeout=120),
        ],
    ),
    "C07": dict(
        level="exploration",
        technique="property-based testing (rapid) of generated workloads on the production fs+metadb+segment+wal stack under strace; oracle = invariant over the observed syscall history (write/fsync/directory-fsync/unlink/rename ordering relative to API-call markers); plus a direct property of fs.Create/Delete/ListDir",
        rule="rapid-generated workloads (appends of many batch shapes, forced rotations on small segments, head/tail/everything truncations, stable sets, single and repeated Close/Open, then a fixed tail of rotation + head truncation + reopen + append) run by a traced binary in a fresh directory; marker syscalls bracket every API call. Invariants: at every StoreLogs ack no segment file has un-fsynced writes and every file written since the call began has had its directory entry fsynced since creation (remembered across WAL instances); every unlink of a segment is followed by a directory fsync before the call returns; segment files are created O_CREAT|O_EXCL and fallocate'd to the requested size before first write; wal-meta.db appears only by rename from wal-meta.db.tmp with no un-synced writes and the directory is fsynced before the first segment is created. fs.Create: size, zero fill, exclusivity, Delete+ListDir. Non-trivial = a trace with a first commit into a new segment, a rotation, a deletion and a commit into a file opened (not created) by the current instance; distinct = FNV-64 of the workload",
        expect_classes=["first-commit-new-segment", "rotation", "deletion", "commit-into-opened-file"],
        assumptions=COMMON_ASSUME + ["ptrace is permitted in the sandbox (strace -f -y)", "the trace shows that syscalls were issued in the required order, not that the kernel or the disk honoured them (README assumptions about fsync)", "fd-to-path resolution is strace's (-y)"],
        bins=[("cmd/tracebin", "tracebin")],
        jobs=[
            dict(pkg="trace", run="TestC07Trace", checks_quick=12, checks_thorough=150, shards_quick=6, shards_thorough=16, shrinktime="40s", timeout_quick=600, timeout_thorough=3000),
            dict(pkg="trace", run="TestC07FsCreate", checks_quick=60, checks_thorough=300, shards_quick=1, shards_thorough=2, timeout_quick=300, timeout_thorough=900),
        ],
    ),
    "C08": dict(
        level="exploration",
        technique="model-based stateful property testing (rapid) of the StableStore on the production bbolt stack against a map model, interleaved with log operations, reopen and quiescent process-crash images; concurrent read-your-writes run; fdatasync-before-ack invariant over strace histories",
        rule="rapid-generated sequences of Set/Set(nil)/SetUint64/Get/GetUint64 over keys of 1-40 bytes incl. NUL bytes, the raft keys and one 32KiB key, values nil/empty/1B/8B/100B/4KiB/1MiB, uint64 boundaries, interleaved with appends (rotations on small segments), head/tail/everything truncations, Close/Open, and byte copies of the directory taken while the WAL is idle and opened by a second WAL; after every step every key and the whole log are compared with their models (isolation both ways). A concurrent variant mutates the log while another goroutine sets and reads back its own keys. Traced workloads: at every Set ack wal-meta.db has no un-synced write. Non-trivial = a key read after at least one later log operation and at least one reopen or crash image (concurrent cases and traces with an acknowledged Set count too); distinct = FNV-64 of the case",
        expect_classes=["get-after-log-op-and-reopen", "crash-image", "reopen", "truncation", "set-nil", "value-1MiB", "key-32KiB", "concurrent-log-and-stable", "set-acked"],
        assumptions=COMMON_ASSUME + ["power loss inside a bolt transaction is bbolt's own guarantee (trusted base); only its fdatasync-before-return discipline is observed", "a byte copy of the directory is a faithful process-crash image only while no bolt transaction is in flight, which the rotation barrier guarantees", "Set and SetUint64 are never mixed on one key (interface contract)"],
        bins=[("cmd/tracebin", "tracebin")],
        jobs=[
            dict(pkg="seq", run="TestC08Stable", checks_quick=60, checks_thorough=1500, shards_quick=8, shards_thorough=16, timeout_quick=600, timeout_thorough=3000),
            dict(pkg="seq", run="TestC08Concurrent", checks_quick=30, checks_thorough=500, shards_quick=4, shards_thorough=8, timeout_quick=600, timeout_thorough=3000),
            dict(pkg="trace", run="TestC08Trace", checks_quick=8, checks_thorough=100, shards_quick=4, shards_thorough=8, shrinktime="40s", timeout_quick=600, timeout_thorough=3000),
        ],
    ),
    "C14": dict(
        level="exploration",
        technique="harness-owned schedule exploration (rapid-generated schedules over build-tag hook points and SimFS I/O gates) of Close racing with other calls; verdicts from results, recovered panics and goroutine-stack evidence of deadlock",
        rule="a generated prefix (1-8 entries, optional head truncation), then 1-4 concurrent calls drawn from GetLog/FirstIndex/LastIndex/Get/Set/StoreLogs (plain, segment-filling, segment-filling then another)/DeleteRange (head, tail)/a second Close, plus Close, at most one log writer. Every call is a worker goroutine parked at named points (after its closed-check, acquireState between load and acquire, before taking the write lock, awaitRotation after unlock, runRotate after trigger and after lock, Close after flag and after lock, mutate after publish) and at SimFS WriteAt/SyncFile/CommitState/Create/ReadAt/Unlink; a generated list of choices releases one parked goroutine at a time, biased so that Close runs while a target call sits between its closed-check and its use of the state. Verdicts: no panic; each result is a correct answer for some log state or ErrClosed; nobody is left blocked inside raft-wal after all goroutines are released (stack evidence); afterwards every method returns ErrClosed, Close is idempotent, the rotation goroutine is gone, no file handle is open, and a reopen shows every acknowledged write. Non-trivial = Close was released while the target call was parked inside its window; distinct = FNV-64 of the case",
        expect_classes=["close-inside-call-window", "got-ErrClosed"],
        assumptions=COMMON_ASSUME + SIM_ASSUME + ["schedules are controlled at hook/I-O granularity; a released goroutine that reaches no point within 3ms is treated as blocked on a lock for scheduling purposes only (never as a verdict)", "single log writer at a time (documented contract)", "a panic on a goroutine the harness does not own (the rotation goroutine) kills the test binary; the driver then reports the log as the replay"],
        jobs=[dict(pkg="sched", run="TestC14Close", checks_quick=60, checks_thorough=1500, shards_quick=12, shards_thorough=16, shrinktime="30s", timeout_quick=600, timeout_thorough=3000)],
    ),
    "C06": dict(
        level="exploration",
        technique="harness-owned schedule exploration (rapid-generated schedules over hook points and SimFS I/O gates) plus free-running stress under the Go race detector; oracle = interval linearizability against the single writer's version log (a read must match some log state possibly current between its invocation and return; an append is visible no earlier than its fsync)",
        rule="one writer script (appends with rotation on small segments, head truncation, tail truncation followed by re-append of different content at the same indexes, delete-everything followed by a restart at another index) and 1-8 reader scripts (GetLog around the moving first/last/middle, FirstIndex, LastIndex). Controlled mode: every goroutine parks at the build-tag hook points and at SimFS WriteAt/SyncFile/CommitState/Create/ReadAt/Unlink and a generated choice list releases one at a time. Free mode: no parking, built with -race. A logical clock stamps invocation/return of every read and start/fsync/return of every writer step; each read is judged against the versions whose possibly-current interval intersects its own: value equal to that version's answer, ErrLogNotFound only if absent in one of them, any other error only if the index was present in an earlier and absent in a later version of the interval; returned entries must equal a generation byte for byte. Non-trivial = a case in which at least one read's interval overlaps a version change; distinct = FNV-64 of the case",
        expect_classes=["read-overlaps-version-change", "overlap:append", "overlap:delhead", "overlap:deltail", "overlap:delall"],
        assumptions=COMMON_ASSUME + SIM_ASSUME + ["schedules are explored at hook and I/O granularity, not instruction granularity; the race detector only sees executed interleavings", "version intervals are conservative (they only over-approximate what is legal), so the check cannot raise a false alarm but may miss a violation that needs sub-operation precision"],
        jobs=[
            dict(pkg="sched", run="TestC06Controlled", checks_quick=150, checks_thorough=3000, shards_quick=12, shards_thorough=16, shrinktime="30s", timeout_quick=600, timeout_thorough=3000),
            dict(pkg="sched", run="TestC06Free", race=True, checks_quick=8, checks_thorough=150, shards_quick=4, shards_thorough=8, shrinktime="30s", timeout_quick=900, timeout_thorough=3000, env=dict(GOMAXPROCS="4")),
        ],
    ),
}
