#!/usr/bin/env python3
"""Regenerates MANIFEST.json from checks_cfg.py (single source of truth)."""
import json, os, subprocess, sys
sys.path.insert(0, os.path.dirname(os.path.abspath(__file__)))
from checks_cfg import CHECKS
ALL = ["C%02d" % i for i in range(1, 21)]
NA = {}
try:
    from checks_cfg import NOT_APPLICABLE as NA
except ImportError:
    pass
hooks = subprocess.run(["git", "-C", "/repo", "log", "--format=%H %s"], capture_output=True, text=True).stdout.splitlines()
hook_commits = [l.split()[0] for l in hooks if l.split(" ", 1)[1].startswith("verif:")]
man = dict(
    version=1,
    setup_cmd="./check setup",
    hooks=dict(
        guard="verif",
        enable="go build tag: every engine is built with `go test -c -tags verif` from /repo's working tree (harness/go.mod replaces github.com/hashicorp/raft-wal => /repo)",
        baseline_off_cmd="cd /repo && GOFLAGS=-mod=mod go test -vet=off -count=1 -timeout 25m ./...",
        source_commits=hook_commits,
        add_only=True,
    ),
    engines=[
        dict(name="simfs", path="harness/simfs", serves_properties=["C01", "C02", "C03", "C04", "C05", "C06", "C09", "C10", "C11", "C12", "C13", "C14", "C15", "C20"], kind_free_text="simulated VFS+MetaStore: page cache vs disk, torn 8-byte chunks, volatile directory entries, crash points, fault/gate hook"),
        dict(name="refmodel", path="harness/refmodel", serves_properties=ALL, kind_free_text="reference models written from documentation: contiguous log, README segment format, binary codec"),
        dict(name="common", path="harness/common", serves_properties=ALL, kind_free_text="rapid runner: case-as-data, replay files, per-shard statistics, known-findings policy"),
        dict(name="driver", path="check", serves_properties=ALL, kind_free_text="python driver: builds engines from /repo with -tags verif, shards by seed, merges evidence"),
    ],
    checks=[],
    notes="See DESIGN.md. VERIF_SEED selects the rapid seeds (default 1). Exit 2 = inconclusive (never a violation).",
    not_applicable=[],
)
for pid in ALL:
    if pid in CHECKS:
        c = CHECKS[pid]
        man["checks"].append(dict(
            property_id=pid,
            quick_cmd="./check %s --tier quick" % pid,
            thorough_cmd="./check %s --tier thorough" % pid,
            evidence_file="/verif/evidence/%s.json" % pid,
            replay_cmd_template="./check %s --replay {path}" % pid,
            engine=",".join(sorted({j["pkg"] for j in c["jobs"]})),
            level_claimed=dict(category=c["level"], text=c.get("level_text", c["rule"]), design_ref="DESIGN.md §4/" + pid),
            level_note="; ".join(c.get("assumptions", [])),
            technique=c["technique"],
        ))
    else:
        man["not_applicable"].append(dict(property_id=pid, reason=NA.get(pid, "check not built yet in this session (work in progress; design in DESIGN.md §4/%s)" % pid)))
json.dump(man, open(os.path.join(os.path.dirname(os.path.abspath(__file__)), "MANIFEST.json"), "w"), indent=1)
print("MANIFEST.json: %d checks, %d not_applicable" % (len(man["checks"]), len(man["not_applicable"])))
