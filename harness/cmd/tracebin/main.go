// tracebin runs a workload on the production fs+metadb+segment+wal stack in a
// real directory. It is meant to run under strace: every API call is bracketed
// by marker syscalls access("/verif-mark/<step>/<op>/<begin|ok|err>").
package main

import (
	"encoding/json"
	"fmt"
	"os"
	"runtime"
	"syscall"

	"verifharness/kit"
	"verifharness/wl"
)

func main() {
	// keep every API call of the workload on one OS thread: strace counts
	// injected faults per thread (fault runs of C07)
	runtime.LockOSThread()
	if len(os.Args) != 3 {
		fmt.Fprintln(os.Stderr, "usage: tracebin <workload.json> <dir>")
		os.Exit(2)
	}
	b, err := os.ReadFile(os.Args[1])
	if err != nil {
		fmt.Fprintln(os.Stderr, err)
		os.Exit(2)
	}
	var w wl.Workload
	if err := json.Unmarshal(b, &w); err != nil {
		fmt.Fprintln(os.Stderr, err)
		os.Exit(2)
	}
	r := &wl.Runner{Cfg: kit.Cfg{SegSize: w.SegSize, Dir: os.Args[2]}}
	r.Mark = func(step int, op, phase string) {
		_ = syscall.Access(fmt.Sprintf("/verif-mark/%d/%s/%s", step, op, phase), 0)
	}
	if len(w.Filer) > 0 {
		if err := r.RunFiler(w, os.Args[2]); err != nil {
			fmt.Fprintln(os.Stderr, "filer workload failed:", err)
			os.Exit(3)
		}
		return
	}
	if err := r.Run(w); err != nil {
		fmt.Fprintln(os.Stderr, "workload failed:", err)
		os.Exit(3)
	}
}
