package cluster

import (
	"bytes"
	"errors"
	"fmt"
	"sync"
	"testing"

	"github.com/hashicorp/raft"
	"pgregory.net/rapid"

	"github.com/hashicorp/raft-wal/verifier"

	"verifharness/common"
	"verifharness/refmodel"
)

var mutFields = []string{"index", "term", "type", "data-flip", "data-trunc", "data-extend", "data-replace", "ext-flip", "ext-extend", "swap"}

func genC17(t *rapid.T) ClusterCase {
	c := genHistory(t, 14)
	n := rapid.IntRange(1, 6).Draw(t, "nepi")
	for i := 0; i < n; i++ {
		e := genESpec(t, 0)
		c.Epi = append(c.Epi, e)
	}
	m := &Mutation{}
	m.Role = rapid.SampledFrom([]string{"follower", "follower", "leader"}).Draw(t, "role")
	m.Mode = rapid.SampledFrom([]string{"inflight", "atrest"}).Draw(t, "mode")
	if m.Role == "leader" {
		m.Mode = "atrest"
	}
	m.Pos = rapid.SampledFrom([]string{"first", "middle", "last"}).Draw(t, "pos")
	m.Frac = rapid.IntRange(0, 1000).Draw(t, "frac")
	m.Field = rapid.SampledFrom(mutFields).Draw(t, "field")
	m.Bit = rapid.IntRange(0, 63).Draw(t, "bit")
	if m.Mode == "inflight" && m.Field == "index" {
		// an entry whose Index is altered in flight is rejected by a monotonic
		// store (or changes replication itself); only at-rest index divergence is in the domain
		m.Field = "term"
	}
	if m.Mode == "atrest" && rapid.IntRange(0, 3).Draw(t, "compactAfterRead") == 0 {
		m.CompactAfterRead = true
	}
	if m.Mode == "atrest" && m.Role == "follower" && rapid.IntRange(0, 2).Draw(t, "restartMid") == 0 {
		m.RestartMid = true
	}
	c.Mut = m
	return c
}

// mutate applies the single-field mutation; it returns false if the mutation
// would not change any checksummed byte or falls under a documented exception.
func mutate(l *raft.Log, field string, bit int, other *raft.Log) bool {
	before := refmodel.CloneLog(l)
	wasCP, _ := isCheckpoint(l)
	switch field {
	case "index":
		l.Index ^= 1 << (uint(bit) % 20)
	case "term":
		l.Term += uint64(1 + bit%7)
	case "type":
		l.Type ^= raft.LogType(1 << (uint(bit) % 8))
	case "data-flip":
		if len(l.Data) == 0 {
			l.Data = append(l.Data, 0xEE)
		} else {
			d := append([]byte{}, l.Data...) // never write through: stores may share the backing array
			d[len(d)-1] ^= 1 << (uint(bit) % 8)
			l.Data = d
		}
	case "data-trunc":
		if len(l.Data) == 0 {
			l.Data = append(l.Data, 0xEE)
		} else {
			l.Data = l.Data[:len(l.Data)-1]
		}
	case "data-extend":
		l.Data = append(append([]byte{}, l.Data...), byte(0x80|bit))
	case "data-replace":
		if len(l.Data) == 0 {
			l.Data = []byte{0xEE}
		} else {
			d := append([]byte{}, l.Data...)
			for i := range d {
				if !(wasCP && i < 2) {
					d[i] ^= byte(0x10 | bit%15 + 1)
				}
			}
			l.Data = d
		}
	case "ext-flip":
		if len(l.Extensions) == 0 {
			l.Extensions = []byte{byte(1 + bit%200)}
		} else {
			e := append([]byte{}, l.Extensions...)
			e[len(e)-1] ^= 1 << (uint(bit) % 8)
			l.Extensions = e
		}
	case "ext-extend":
		l.Extensions = append(append([]byte{}, l.Extensions...), byte(1+bit%200))
	case "swap":
		if other == nil {
			return false
		}
		l.Term, l.Type, l.Data, l.Extensions = other.Term, other.Type, other.Data, other.Extensions
	}
	if cp, _ := isCheckpoint(l); cp != wasCP {
		*l = *before
		return false
	}
	// documented exception: the bootstrap configuration entry is not hashed
	if (before.Index == 1 && before.Type == raft.LogConfiguration) || (l.Index == 1 && l.Type == raft.LogConfiguration) {
		*l = *before
		return false
	}
	same := before.Index == l.Index && before.Term == l.Term && before.Type == l.Type && bytes.Equal(before.Data, l.Data) && bytes.Equal(before.Extensions, l.Extensions)
	return !same
}

func runC17(c ClusterCase) (res common.Result) {
	s, err := newSim(c)
	if err != nil {
		res.Fail = common.Failf("harness", "%v", err)
		return
	}
	defer s.close()
	return runC17WithSim(s, c)
}

func runC17WithSim(s *sim, c ClusterCase) (res common.Result) {
	fail := func(f *common.Failure) common.Result {
		res.Fail = f
		return res
	}
	if f := s.run(); f != nil {
		return fail(f)
	}
	m := c.Mut
	ld := s.nodes[s.leader]
	// checkpoint cp0 fixes the start of the next range
	if f := s.leaderAppend([]ESpec{{DataLen: 3, Seed: 1, CP: true}}); f != nil {
		return fail(f)
	}
	start := ld.LogicalLast
	for i := range s.nodes {
		if f := s.replicate(i, 0, []int{2}, nil); f != nil {
			return fail(f)
		}
	}
	// target node
	target := s.leader
	if m.Role == "follower" {
		k := m.Frac % (c.N - 1)
		for i := range s.nodes {
			if i == s.leader {
				continue
			}
			if k == 0 {
				target = i
				break
			}
			k--
		}
	}
	tn := s.nodes[target]
	// leader appends the window entries
	if f := s.leaderAppend(c.Epi); f != nil {
		return fail(f)
	}
	end := ld.LogicalLast + 1 // index of the final checkpoint
	// choose the mutated index
	lo, hi := start, end-1
	if m.Mode == "inflight" {
		lo = start + 1 // cp0 itself was already replicated cleanly
	}
	var idx uint64
	switch m.Pos {
	case "first":
		idx = lo
	case "last":
		idx = hi
	default:
		idx = lo + uint64(m.Frac)%(hi-lo+1)
	}
	s.mutIdx = idx
	s.mutNode = target
	effective := false
	// resolve the swap partner now: the mutation callbacks run on the verifier's
	// goroutine and must not touch the harness's ground-truth maps
	var other *raft.Log
	if m.Field == "swap" {
		j := idx + 1
		if j > hi {
			j = idx - 1
		}
		if j >= lo && j <= hi && j != idx {
			if o, ok := ld.Told.Get(j); ok {
				other = refmodel.CloneLog(o)
			}
		}
	}
	var effMu sync.Mutex
	apply := func(l *raft.Log) {
		effMu.Lock()
		defer effMu.Unlock()
		if l.Index == idx {
			if mutate(l, m.Field, m.Bit, other) {
				effective = true
			}
		}
	}
	// dry-run on a copy to learn whether the mutation is effective at all
	{
		e, _ := ld.Told.Get(idx)
		cp := refmodel.CloneLog(e)
		apply(cp)
	}
	if !effective {
		res.Classes = append(res.Classes, "mutation-ineffective-skipped")
		return
	}
	key := fmt.Sprintf("%d/%d", target, end)
	s.expectBad[key] = true
	if m.Mode == "atrest" {
		tn.rest.set(idx, func(l *raft.Log) { apply(l) })
		if m.CompactAfterRead && !tn.Told.Empty() && tn.Told.First <= start {
			first, under := tn.Told.First, tn.rest.LogStore
			var once sync.Once
			tn.rest.setAfterGet(func(i uint64) {
				if i == end-1 {
					once.Do(func() { _ = under.DeleteRange(first, start) })
				}
			})
			defer tn.rest.setAfterGet(nil)
			res.Classes = append(res.Classes, "compaction-right-after-last-read")
		}
	}
	if m.RestartMid && m.Role == "follower" && m.Mode == "atrest" && len(c.Epi) > 0 {
		if f := s.replicate(target, 1+m.Frac%len(c.Epi), []int{1}, nil); f != nil {
			return fail(f)
		}
		tn.Restart()
		s.nodeEv[target]["restart"] = true
		res.Classes = append(res.Classes, "restart-inside-divergent-range")
	}
	// final checkpoint
	if m.Role == "leader" {
		if f := s.leaderAppend([]ESpec{{DataLen: 2, Seed: 2, CP: true}}); f != nil {
			return fail(f)
		}
	} else {
		if f := s.leaderAppend([]ESpec{{DataLen: 2, Seed: 2, CP: true}}); f != nil {
			return fail(f)
		}
		var alter func(*raft.Log)
		if m.Mode == "inflight" {
			s.inflight[target] = map[uint64]bool{idx: true}
			alter = func(l *raft.Log) { apply(l) }
		}
		if f := s.replicate(target, 0, []int{1 + m.Bit%3}, alter); f != nil {
			return fail(f)
		}
	}
	if s.expectBad[key] {
		// no report was delivered for the divergent range (dropped): cannot judge
		res.Classes = append(res.Classes, "divergent-range-report-dropped")
		return
	}
	if s.cls["divergent-range-not-held"] {
		res.Classes = append(res.Classes, "divergent-range-not-held")
		return
	}
	res.NonTrivial = true
	res.Classes = append(res.Classes, "mut:"+m.Role+"/"+m.Mode+"/"+m.Pos, "field:"+m.Field)
	return
}

func TestC17Detects(t *testing.T) {
	common.Run(t, "C17", "C17Divergence", genC17, runC17)
}

// TestC20Verifier replays C17-style histories (clean prefix + one divergence)
// and checks the verifier's five counters against the true totals on every
// node, before every middleware restart and at the end (C20).
func TestC20Verifier(t *testing.T) {
	common.Run(t, "C20", "C20Verifier", genC17, func(c ClusterCase) (res common.Result) {
		s, err := newSim(c)
		if err != nil {
			res.Fail = common.Failf("harness", "%v", err)
			return
		}
		defer s.close()
		// reuse the C17 scenario; its own verdict belongs to C17 and is ignored here
		_ = runC17WithSim(s, c)
		if c.Mut != nil && c.Mut.Bit%2 == 0 {
			if f := readFailureEpilogue(s); f != nil {
				res.Fail = f
				return
			}
			if s.cls["report-with-read-error"] {
				res.Classes = append(res.Classes, "verification-met-a-read-error")
			}
		}
		mism := uint64(0)
		for _, n := range s.nodes {
			n.Quiesce()
			for _, r := range n.TakeReports() {
				s.judge(n, r)
			}
			n.CheckCounters("at the end")
			if n.AccountingFail != "" {
				res.Fail = common.Failf("verifier-counter/unaccounted", "%s", n.AccountingFail)
				return
			}
			if n.CounterFail != "" {
				res.Fail = common.Failf("verifier-counter", "%s", n.CounterFail)
				return
			}
			mism += n.MismatchRead + n.MismatchWritten
		}
		res.NonTrivial = mism > 0
		if mism > 0 {
			res.Classes = append(res.Classes, "checksum-failure-counted")
		}
		return
	})
}

// readFailureEpilogue makes one verification fail on a read: while the leader's report callback
// is held inside the report of checkpoint A, checkpoint B is stored (its report waits in the
// hand-off buffer) and a tail truncation then removes part of B's range. B's verification finds
// the range start present but cannot read all of it: that report carries a read error, which is
// neither a written-checksum nor a read-checksum failure.
func readFailureEpilogue(s *sim) *common.Failure {
	ld := s.nodes[s.leader]
	ld.Quiesce()
	for _, r := range ld.TakeReports() {
		s.judge(ld, r)
	}
	block, entered := make(chan struct{}), make(chan struct{}, 1)
	ld.mu.Lock()
	ld.block, ld.entered = block, entered
	ld.mu.Unlock()
	release := func() {
		ld.mu.Lock()
		if ld.block != nil {
			close(ld.block)
			ld.block, ld.entered = nil, nil
		}
		ld.mu.Unlock()
	}
	defer release()
	next := ld.LogicalLast + 1
	if err := ld.Store([]*raft.Log{ESpec{DataLen: 3, Seed: 7, CP: true}.mk(next, s.term)}); err != nil {
		return common.Failf("leader-store-err", "%v", err)
	}
	<-entered // the verifier goroutine now sits in the callback with A's report; the buffer is empty
	b := []*raft.Log{ESpec{DataLen: 4, Seed: 8}.mk(next+1, s.term), ESpec{DataLen: 4, Seed: 9}.mk(next+2, s.term), ESpec{DataLen: 2, Seed: 10, CP: true}.mk(next+3, s.term)}
	if err := ld.Store(b); err != nil {
		return common.Failf("leader-store-err", "%v", err)
	}
	if err := ld.Delete(next+2, next+3); err != nil {
		return common.Failf("delete-err", "leader tail DeleteRange = %v", err)
	}
	release()
	ld.Quiesce()
	sawReadErr := false
	for _, r := range ld.TakeReports() {
		ld.Delivered++
		var cm verifier.ErrChecksumMismatch
		if errors.As(r.Err, &cm) {
			if r.WrittenSum != 0 && r.WrittenSum != r.ExpectedSum {
				ld.MismatchWritten++
			} else {
				ld.MismatchRead++
			}
		} else if r.Err != nil && !errors.Is(r.Err, verifier.ErrRangeMismatch) {
			sawReadErr = true
		}
	}
	if sawReadErr {
		s.cls["report-with-read-error"] = true
	}
	return nil
}
