// Package cluster simulates raft-style replication around verifier.LogStore
// (C16, C17, C18) with a ground-truth record of what every node was told to
// store.
package cluster

import (
	"bytes"
	"errors"
	"fmt"
	"runtime"
	"strings"
	"sync"
	"time"

	"github.com/hashicorp/raft"
	"github.com/hashicorp/raft-wal/metrics"
	"github.com/hashicorp/raft-wal/verifier"

	"verifharness/kit"
	"verifharness/refmodel"
	"verifharness/simfs"
)

// errPrefix is long enough that generated filler never starts with it by accident.
var errPrefix = []byte("ER!callback-fails!")

var errCheckpointFn = errors.New("the application cannot tell whether this entry is a checkpoint")

// isCheckpoint: entries whose Data starts with "CP" are checkpoints; for entries starting with
// errPrefix the application's callback fails (the append must then be refused as a whole).
func isCheckpoint(l *raft.Log) (bool, error) {
	if bytes.HasPrefix(l.Data, errPrefix) {
		return false, errCheckpointFn
	}
	return bytes.HasPrefix(l.Data, []byte("CP")), nil
}

// noCloser hides io.Closer so that closing the middleware does not close the inner store.
type noCloser struct{ raft.LogStore }

// restStore can alter what GetLog returns for one index (corruption at rest).
type restStore struct {
	raft.LogStore
	mu  sync.Mutex
	mut map[uint64]func(*raft.Log)
	// failStores > 0: the next StoreLogs calls fail without storing anything
	failStores int
	// delGate, if set, is called by DeleteRange before the underlying store is touched (it may
	// park the caller: a compaction in progress on another goroutine)
	delGate func(min, max uint64)
	// afterGet, if set, is called after every successful GetLog with the index read
	afterGet func(i uint64)
}

func (r *restStore) DeleteRange(min, max uint64) error {
	r.mu.Lock()
	g := r.delGate
	r.mu.Unlock()
	if g != nil {
		g(min, max)
	}
	return r.LogStore.DeleteRange(min, max)
}

func (r *restStore) setGate(g func(min, max uint64)) {
	r.mu.Lock()
	r.delGate = g
	r.mu.Unlock()
}

func (r *restStore) setAfterGet(f func(i uint64)) {
	r.mu.Lock()
	r.afterGet = f
	r.mu.Unlock()
}

var errInjectedStore = errors.New("injected store failure")

func (r *restStore) StoreLogs(logs []*raft.Log) error {
	r.mu.Lock()
	if r.failStores > 0 {
		r.failStores--
		r.mu.Unlock()
		return errInjectedStore
	}
	r.mu.Unlock()
	return r.LogStore.StoreLogs(logs)
}

func (r *restStore) StoreLog(l *raft.Log) error { return r.StoreLogs([]*raft.Log{l}) }

func (r *restStore) GetLog(i uint64, l *raft.Log) error {
	err := r.LogStore.GetLog(i, l)
	r.mu.Lock()
	if err == nil {
		if m := r.mut[i]; m != nil {
			m(l)
		}
	}
	ag := r.afterGet
	r.mu.Unlock()
	if err == nil && ag != nil {
		ag(i)
	}
	return err
}

func (r *restStore) set(idx uint64, mut func(*raft.Log)) {
	r.mu.Lock()
	if r.mut == nil {
		r.mut = map[uint64]func(*raft.Log){}
	}
	r.mut[idx] = mut
	r.mu.Unlock()
}

type Node struct {
	ID      int
	inner   raft.LogStore
	rest    *restStore
	V       *verifier.LogStore
	Coll    *metrics.AtomicCollector
	mu      sync.Mutex
	reports []verifier.VerificationReport
	Told    *refmodel.LogModel // what the node was told to store (ground truth)
	// LogicalLast is the highest index the node logically holds, including a
	// prefix compacted away by head truncation (raft never re-uses those indexes).
	LogicalLast uint64
	closers     []func()
	block       chan struct{} // if non-nil, reportFn waits on it
	entered     chan struct{} // if non-nil, reportFn signals here before it waits on block
	// per middleware instance (reset by Restart): what the counters should say
	CPStored, Delivered, MismatchWritten, MismatchRead uint64
	CounterFail                                        string
	AccountingFail                                     string
	Retried                                            int
}

func newInner(kind string, seg int) (raft.LogStore, func(), error) {
	switch kind {
	case "wal":
		w, err := kit.Cfg{SegSize: seg, FS: simfs.New()}.Open()
		if err != nil {
			return nil, nil, err
		}
		return noCloser{w}, func() { w.Close() }, nil
	default:
		return raft.NewInmemStore(), func() {}, nil
	}
}

func NewNode(id int, kind string, seg int) (*Node, error) {
	in, cl, err := newInner(kind, seg)
	if err != nil {
		return nil, err
	}
	n := &Node{ID: id, inner: in, Told: refmodel.NewLogModel()}
	n.rest = &restStore{LogStore: in}
	n.closers = append(n.closers, cl)
	n.startMiddleware()
	return n, nil
}

func (n *Node) startMiddleware() {
	n.Coll = metrics.NewAtomicCollector(verifier.MetricDefinitions)
	n.V = verifier.NewLogStore(n.rest, isCheckpoint, func(r verifier.VerificationReport) {
		n.mu.Lock()
		b, e := n.block, n.entered
		n.mu.Unlock()
		if b != nil {
			if e != nil {
				select {
				case e <- struct{}{}:
				default:
				}
			}
			<-b
		}
		n.mu.Lock()
		n.reports = append(n.reports, r)
		n.mu.Unlock()
	}, n.Coll)
}

// Restart replaces the middleware (as a process restart would) over the same inner store.
func (n *Node) Restart() {
	n.Quiesce()
	n.CheckCounters("before restart")
	n.V.Close()
	n.CPStored, n.Delivered, n.MismatchWritten, n.MismatchRead = 0, 0, 0, 0
	n.startMiddleware()
}

// CheckCounters compares the verifier's counters of the current middleware
// instance with the true totals (C20). The first difference is remembered.
func (n *Node) CheckCounters(when string) {
	if n.CounterFail != "" {
		return
	}
	n.mu.Lock()
	pending := uint64(len(n.reports))
	n.mu.Unlock()
	c := n.Coll.Summary().Counters
	want := map[string]uint64{
		"checkpoints_written":     n.CPStored,
		"ranges_verified":         n.Delivered + pending,
		"dropped_reports":         n.CPStored - n.Delivered - pending,
		"write_checksum_failures": n.MismatchWritten,
		"read_checksum_failures":  n.MismatchRead,
	}
	if pending > 0 {
		// undelivered-to-harness reports have not been classified yet: skip the failure split
		delete(want, "write_checksum_failures")
		delete(want, "read_checksum_failures")
	}
	for _, k := range []string{"checkpoints_written", "ranges_verified", "dropped_reports", "write_checksum_failures", "read_checksum_failures"} {
		if w, ok := want[k]; ok && c[k] != w {
			n.CounterFail = fmt.Sprintf("node %d %s: counter %s = %d, true total %d (checkpoints stored %d, reports delivered %d, mismatches written/read %d/%d)", n.ID, when, k, c[k], w, n.CPStored, n.Delivered, n.MismatchWritten, n.MismatchRead)
			return
		}
	}
}

func (n *Node) Close() {
	n.V.Close()
	for _, c := range n.closers {
		c()
	}
}

func (n *Node) counter(name string) uint64 { return n.Coll.Summary().Counters[name] }

// Quiesce waits until every written checkpoint has been delivered or dropped.
// There is no timeout: a verifier that is still working is waited for. If the
// counts do not add up while the verifier goroutine is idle (parked on its
// channel in two consecutive stack dumps) the accounting itself is broken;
// that is remembered in AccountingFail and the wait ends.
func (n *Node) Quiesce() {
	prevIdle := false
	for i := 0; ; i++ {
		s := n.Coll.Summary().Counters
		if s["ranges_verified"]+s["dropped_reports"] >= s["checkpoints_written"] {
			return
		}
		if i < 100 {
			runtime.Gosched()
			continue
		}
		time.Sleep(20 * time.Microsecond)
		if i%2000 != 0 {
			continue
		}
		// is the verifier goroutine idle?
		idle := VerifiersIdle()
		s = n.Coll.Summary().Counters
		if idle && s["ranges_verified"]+s["dropped_reports"] < s["checkpoints_written"] {
			if prevIdle {
				n.AccountingFail = fmt.Sprintf("node %d: the verifier is idle but checkpoints_written=%d while ranges_verified=%d + dropped_reports=%d: a checkpoint produced neither a delivered report nor a counted drop", n.ID, s["checkpoints_written"], s["ranges_verified"], s["dropped_reports"])
				return
			}
			prevIdle = true
		} else {
			prevIdle = false
		}
	}
}

// VerifiersIdle reports whether every verifier goroutine of the process is
// parked on its hand-off channel (the harness is sequential: only the store
// just written to could be busy), i.e. no report is being produced.
func VerifiersIdle() bool {
	buf := make([]byte, 2<<20)
	dump := string(buf[:runtime.Stack(buf, true)])
	seen := false
	for _, g := range strings.Split(dump, "\n\n") {
		if !strings.Contains(g, "verifier.(*LogStore).runVerifier") {
			continue
		}
		seen = true
		lines := strings.SplitN(g, "\n", 3)
		if len(lines) < 2 || !strings.Contains(lines[0], "[chan receive") || !strings.Contains(lines[1], "runVerifier") {
			return false
		}
	}
	return seen
}

// TakeReports returns and clears delivered reports.
func (n *Node) TakeReports() []verifier.VerificationReport {
	n.mu.Lock()
	defer n.mu.Unlock()
	r := n.reports
	n.reports = nil
	return r
}

// Store sends a batch to the node through the middleware and records ground truth.
func (n *Node) Store(logs []*raft.Log) error {
	err := n.V.StoreLogs(logs)
	if errors.Is(err, errInjectedStore) {
		// raft retries the same entries after a store error
		n.Retried++
		err = n.V.StoreLogs(logs)
	}
	if err == nil {
		for _, l := range logs {
			if ok, _ := isCheckpoint(l); ok {
				n.CPStored++
			}
		}
		n.Told.Append(logs) // post-store entries (leader checkpoints now carry Extensions)
		n.LogicalLast = logs[len(logs)-1].Index
	}
	return err
}

func (n *Node) Delete(min, max uint64) error {
	err := n.V.DeleteRange(min, max)
	if err == nil {
		if n.Told.ClassifyDelete(min, max) == refmodel.DelTail {
			n.LogicalLast = min - 1
		}
		n.Told.Delete(min, max)
	}
	return err
}

func cloneLogs(ls []*raft.Log) []*raft.Log {
	out := make([]*raft.Log, len(ls))
	for i, l := range ls {
		out[i] = refmodel.CloneLog(l)
	}
	return out
}

// CPTruth is what the leader checksummed for one checkpoint.
type CPTruth struct {
	Start, End uint64
	Entries    map[uint64]*raft.Log
}

func cpKey(idx, term uint64) string { return fmt.Sprintf("%d@%d", idx, term) }
