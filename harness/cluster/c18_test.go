package cluster

import (
	"encoding/binary"
	"errors"
	"fmt"
	"runtime"
	"strings"
	"testing"
	"time"

	"github.com/hashicorp/raft"
	"github.com/hashicorp/raft-wal/metrics"
	"github.com/hashicorp/raft-wal/verifier"
	"pgregory.net/rapid"

	"verifharness/common"
	"verifharness/refmodel"
)

// ---------------------------------------------------------------- (a) twin run

type TOp struct {
	K        string  `json:"k"` // append, bad, del, get
	Entries  []ESpec `json:"e,omitempty"`
	Foreign  int     `json:"foreign,omitempty"` // 1-based entry that is a checkpoint carrying foreign Extensions
	FLen     int     `json:"flen,omitempty"`
	Bad      string  `json:"bad,omitempty"`
	EmptyExt bool    `json:"emptyExt,omitempty"` // checkpoints carry Extensions = []byte{} (empty, non-nil)
	A        int     `json:"a,omitempty"`        // del/get position offset
	Rel      string  `json:"rel,omitempty"`
}

type TwinCase struct {
	Inner string `json:"inner"`
	Seg   int    `json:"seg"`
	Start uint64 `json:"start"`
	Ops   []TOp  `json:"ops"`
}

func genTwin(t *rapid.T) TwinCase {
	c := TwinCase{}
	c.Inner = rapid.SampledFrom([]string{"inmem", "wal"}).Draw(t, "inner")
	c.Seg = rapid.SampledFrom([]int{128, 4096}).Draw(t, "seg")
	c.Start = rapid.SampledFrom([]uint64{1, 1, 2, 500}).Draw(t, "start")
	n := rapid.IntRange(2, 30).Draw(t, "nops")
	for i := 0; i < n; i++ {
		k := rapid.IntRange(0, 99).Draw(t, "k")
		switch {
		case k < 50:
			op := TOp{K: "append"}
			m := rapid.IntRange(1, 6).Draw(t, "n")
			for j := 0; j < m; j++ {
				op.Entries = append(op.Entries, genESpec(t, 30))
			}
			if rapid.IntRange(0, 5).Draw(t, "foreign") == 0 {
				op.Foreign = rapid.IntRange(1, m).Draw(t, "fpos")
				op.FLen = rapid.SampledFrom([]int{1, 5, 23, 24, 30}).Draw(t, "flen")
			}
			op.EmptyExt = rapid.IntRange(0, 3).Draw(t, "emptyExt") == 0
			c.Ops = append(c.Ops, op)
		case k < 58:
			op := TOp{K: "bad", Bad: rapid.SampledFrom([]string{"gap", "overlap"}).Draw(t, "bad")}
			op.Entries = []ESpec{genESpec(t, 30)}
			c.Ops = append(c.Ops, op)
		case k < 78:
			c.Ops = append(c.Ops, TOp{K: "del", Rel: rapid.SampledFrom([]string{"head", "tail", "middle", "all", "none"}).Draw(t, "rel"), A: rapid.IntRange(0, 5).Draw(t, "a")})
		default:
			c.Ops = append(c.Ops, TOp{K: "get", Rel: rapid.SampledFrom([]string{"first", "last"}).Draw(t, "rel"), A: rapid.IntRange(-2, 3).Draw(t, "a")})
		}
	}
	return c
}

func sameErr(a, b error) bool {
	if (a == nil) != (b == nil) {
		return false
	}
	if a == nil {
		return true
	}
	// the middleware must return the store's error (not wrap it beyond recognition)
	return errors.Is(a, b) || errors.Is(b, a) || a.Error() == b.Error()
}

func runTwin(c TwinCase) (res common.Result) {
	in1, cl1, err := newInner(c.Inner, c.Seg)
	if err != nil {
		res.Fail = common.Failf("harness", "%v", err)
		return
	}
	defer cl1()
	in2, cl2, err := newInner(c.Inner, c.Seg)
	if err != nil {
		res.Fail = common.Failf("harness", "%v", err)
		return
	}
	defer cl2()
	coll := metrics.NewAtomicCollector(verifier.MetricDefinitions)
	v := verifier.NewLogStore(in1, isCheckpoint, func(verifier.VerificationReport) {}, coll)
	defer v.Close()
	m := refmodel.NewLogModel() // tracks bounds to resolve positions (model of the plain store)
	nextIdx := c.Start
	cls := map[string]bool{}
	cps := 0
	for i, op := range c.Ops {
		switch op.K {
		case "append", "bad":
			start := nextIdx
			if op.K == "bad" {
				if m.Empty() || c.Inner == "inmem" {
					continue // InmemStore accepts any index
				}
				if op.Bad == "gap" {
					start = m.Last + 2
				} else {
					start = m.Last
				}
			}
			var a, b []*raft.Log
			foreign := false
			for j, e := range op.Entries {
				l := e.mk(start+uint64(j), 7)
				if op.K == "append" && op.Foreign == j+1 {
					l.Data = append([]byte("CP"), l.Data...)
					l.Extensions = make([]byte, op.FLen)
					for k := range l.Extensions {
						l.Extensions[k] = byte(0x11 + k)
					}
					foreign = true
				}
				if op.K == "append" && op.EmptyExt && len(l.Extensions) == 0 {
					if cp, _ := isCheckpoint(l); cp {
						l.Extensions = []byte{}
						cls["checkpoint-empty-nonnil-extensions"] = true
					}
				}
				a = append(a, l)
				b = append(b, refmodel.CloneLog(l))
			}
			e1, stuck := guarded("verifier.(*LogStore).StoreLogs", func() error { return v.StoreLogs(a) })
			if stuck != "" {
				res.Fail = common.Failf("storelogs-blocked", "step %d: StoreLogs through the verifier never returns (nobody holds the report callback):\n%s", i, stuck)
				return
			}
			if foreign {
				cls["foreign-checkpoint"] = true
				if e1 == nil {
					res.Fail = common.Failf("foreign-cp-accepted", "step %d: StoreLogs with a checkpoint whose Extensions hold %d foreign bytes returned nil", i, op.FLen)
					return
				}
				// nothing must have been stored; the twin skips the op
			} else {
				e2 := in2.StoreLogs(b)
				if !sameErr(e1, e2) {
					res.Fail = common.Failf("storelogs-result-differs", "step %d %s: via verifier %v, direct %v", i, op.K, e1, e2)
					return
				}
				if e1 == nil {
					m.Append(b)
					nextIdx = m.Last + 1
					for _, l := range b {
						if ok, _ := isCheckpoint(l); ok {
							cps++
						}
					}
				} else {
					cls["rejected-call"] = true
				}
			}
		case "del":
			if m.Empty() {
				continue
			}
			var min, max uint64
			switch op.Rel {
			case "head":
				min, max = m.First, m.First+uint64(op.A)
			case "tail":
				min, max = m.Last-uint64(op.A)%m.Len(), m.Last
			case "middle":
				if m.Len() < 3 {
					continue
				}
				min, max = m.First+1, m.Last-1
			case "all":
				min, max = m.First, m.Last
			default:
				min, max = m.Last+2, m.Last+5
			}
			if c.Inner == "inmem" && op.Rel == "middle" {
				continue // InmemStore accepts middle deletions and then misreports bounds; not the middleware's concern
			}
			e1, stuck := guarded("verifier.(*LogStore).DeleteRange", func() error { return v.DeleteRange(min, max) })
			if stuck != "" {
				res.Fail = common.Failf("deleterange-blocked", "step %d: DeleteRange(%d,%d) through the verifier never returns:\n%s", i, min, max, stuck)
				return
			}
			e2 := in2.DeleteRange(min, max)
			if !sameErr(e1, e2) {
				res.Fail = common.Failf("deleterange-result-differs", "step %d DeleteRange(%d,%d): via verifier %v, direct %v", i, min, max, e1, e2)
				return
			}
			if e1 == nil {
				wasTail := m.ClassifyDelete(min, max) == refmodel.DelTail
				m.Delete(min, max)
				if wasTail {
					nextIdx = min
				}
			} else {
				cls["rejected-call"] = true
			}
		case "get":
		}
		// compare everything observable
		f1, ef1 := v.FirstIndex()
		f2, ef2 := in2.FirstIndex()
		l1, el1 := v.LastIndex()
		l2, el2 := in2.LastIndex()
		if f1 != f2 || l1 != l2 || !sameErr(ef1, ef2) || !sameErr(el1, el2) {
			res.Fail = common.Failf("bounds-differ", "after step %d %s: via verifier [%d,%d] (%v,%v), direct [%d,%d] (%v,%v)", i, op.K, f1, l1, ef1, el1, f2, l2, ef2, el2)
			return
		}
		lo, hi := f2, l2
		if lo > 2 {
			lo -= 2
		} else {
			lo = 0
		}
		for idx := lo; idx <= hi+2; idx++ {
			var a, b raft.Log
			e1, e2 := v.GetLog(idx, &a), in2.GetLog(idx, &b)
			if !sameErr(e1, e2) {
				res.Fail = common.Failf("getlog-result-differs", "after step %d: GetLog(%d) via verifier %v, direct %v", i, idx, e1, e2)
				return
			}
			if e1 != nil {
				continue
			}
			cp, _ := isCheckpoint(&b)
			if cp {
				// the twin stored it without metadata; through the verifier it gained 24 bytes
				if len(a.Extensions) != 24 || binary.LittleEndian.Uint64(a.Extensions[0:8]) != verifier.ExtensionMagicPrefix {
					res.Fail = common.Failf("cp-meta-missing", "checkpoint %d stored through the verifier has Extensions %x", idx, a.Extensions)
					return
				}
				a.Extensions = nil
				b.Extensions = nil
			}
			if d := refmodel.Diff(&a, &b); d != "" {
				res.Fail = common.Failf("content-differs", "after step %d: entry %d differs between verifier-wrapped and plain store: %s", i, idx, d)
				return
			}
		}
	}
	res.NonTrivial = cps > 0 && cls["rejected-call"]
	if cps > 0 {
		cls["has-checkpoint"] = true
	}
	for k := range cls {
		res.Classes = append(res.Classes, k)
	}
	return
}

func TestC18Twin(t *testing.T) {
	common.Run(t, "C18", "C18Twin", genTwin, runTwin)
}

// ---------------------------------------------------------------- (b) blocked callback

type BOp struct {
	K   string `json:"k"` // append, release
	CPs []bool `json:"cps,omitempty"`
	N   int    `json:"n,omitempty"`
}

type BlockCase struct {
	Ops      []BOp `json:"ops"`
	Follower bool  `json:"follower,omitempty"` // the blocked node is a follower fed by a leader's post-store entries
	Corrupt  []int `json:"corrupt,omitempty"`  // indexes (mod entry count) altered in flight on their way to the follower
}

func genBlock(t *rapid.T) BlockCase {
	var c BlockCase
	n := rapid.IntRange(2, 25).Draw(t, "nops")
	for i := 0; i < n; i++ {
		if rapid.IntRange(0, 9).Draw(t, "k") < 7 {
			op := BOp{K: "append"}
			m := rapid.IntRange(1, 5).Draw(t, "n")
			for j := 0; j < m; j++ {
				op.CPs = append(op.CPs, rapid.IntRange(0, 2).Draw(t, "cp") == 0)
			}
			c.Ops = append(c.Ops, op)
		} else if rapid.IntRange(0, 3).Draw(t, "trunc") == 0 {
			// a suffix truncation through the middleware: later checkpoints land on lower indexes
			c.Ops = append(c.Ops, BOp{K: "deltail", N: rapid.IntRange(1, 4).Draw(t, "dn")})
		} else {
			c.Ops = append(c.Ops, BOp{K: "release", N: rapid.IntRange(1, 3).Draw(t, "rn")})
		}
	}
	c.Follower = rapid.Bool().Draw(t, "follower")
	if c.Follower {
		for i := 0; i < rapid.IntRange(0, 4).Draw(t, "ncorrupt"); i++ {
			c.Corrupt = append(c.Corrupt, rapid.IntRange(0, 200).Draw(t, "corrupt"))
		}
	}
	return c
}

func stacks() string {
	buf := make([]byte, 1<<20)
	return string(buf[:runtime.Stack(buf, true)])
}

func runBlock(c BlockCase) (res common.Result) {
	in := raft.NewInmemStore()
	coll := metrics.NewAtomicCollector(verifier.MetricDefinitions)
	tokens := make(chan struct{}, 1000)
	var delivered []verifier.VerificationReport
	deliveredCh := make(chan verifier.VerificationReport, 1000)
	v := verifier.NewLogStore(in, isCheckpoint, func(r verifier.VerificationReport) {
		<-tokens
		deliveredCh <- r
	}, coll)
	leakOnPurpose := false // a StoreLogs stuck inside the verifier must not meet a closed channel
	defer func() {
		if !leakOnPurpose {
			v.Close()
		}
	}()
	var triggered []verifier.LogRange
	next := uint64(1)
	cpCount := 0
	// follower mode: a leader (never blocked) stamps the checkpoints first
	var leader *verifier.LogStore
	if c.Follower {
		leader = verifier.NewLogStore(raft.NewInmemStore(), isCheckpoint, func(verifier.VerificationReport) {}, metrics.NewAtomicCollector(verifier.MetricDefinitions))
		defer leader.Close()
	}
	corrupt := map[uint64]bool{}
	total := 0
	for _, op := range c.Ops {
		total += len(op.CPs)
	}
	for _, x := range c.Corrupt {
		if total > 0 {
			corrupt[uint64(1+x%total)] = true
		}
	}
	corrupted := false
	truncated := false
	for i, op := range c.Ops {
		switch op.K {
		case "append":
			var logs []*raft.Log
			for _, cp := range op.CPs {
				logs = append(logs, ESpec{DataLen: 4, Seed: uint8(next), CP: cp}.mk(next, 1))
				next++
			}
			if leader != nil {
				if err := leader.StoreLogs(logs); err != nil {
					res.Fail = common.Failf("harness", "leader store: %v", err)
					close(tokens)
					return
				}
				sent := make([]*raft.Log, len(logs))
				for k, l := range logs {
					sent[k] = refmodel.CloneLog(l)
					if cp, _ := isCheckpoint(l); !cp && corrupt[l.Index] {
						sent[k].Data = append(append([]byte{}, l.Data...), 0xEE) // altered in flight
						corrupted = true
					}
				}
				logs = sent
			}
			var serr error
			doneCh := make(chan struct{})
			go func() { serr = v.StoreLogs(logs); close(doneCh) }()
			if parked, st := common.WaitParked(doneCh, "verifier.(*LogStore).StoreLogs", 2*time.Second, 5*time.Minute); parked {
				leakOnPurpose = true
				res.Fail = common.Failf("storelogs-blocked", "step %d: StoreLogs is parked inside the verifier while the report callback is blocked (%d checkpoints so far):\n%s", i, cpCount, st)
				return
			}
			if serr != nil {
				res.Fail = common.Failf("storelogs-err", "step %d: %v", i, serr)
				close(tokens)
				return
			}
			for _, l := range logs {
				if ok, _ := isCheckpoint(l); ok {
					cpCount++
					st := binary.LittleEndian.Uint64(l.Extensions[8:16])
					triggered = append(triggered, verifier.LogRange{Start: st, End: l.Index})
				}
			}
		case "release":
			for k := 0; k < op.N; k++ {
				select {
				case tokens <- struct{}{}:
				default:
				}
			}
		case "deltail":
			if next <= 1 {
				continue
			}
			min := uint64(1)
			if next > uint64(op.N) {
				min = next - uint64(op.N)
			}
			if leader != nil {
				if err := leader.DeleteRange(min, next-1); err != nil {
					res.Fail = common.Failf("harness", "leader DeleteRange: %v", err)
					close(tokens)
					return
				}
			}
			derr, stuck := guarded("verifier.(*LogStore).DeleteRange", func() error { return v.DeleteRange(min, next-1) })
			if stuck != "" {
				leakOnPurpose = true
				res.Fail = common.Failf("deleterange-blocked", "step %d: DeleteRange(%d,%d) through the verifier never returns:\n%s", i, min, next-1, stuck)
				return
			}
			if err := derr; err != nil {
				res.Fail = common.Failf("deleterange-err", "step %d: DeleteRange(%d,%d) through the verifier = %v", i, min, next-1, err)
				close(tokens)
				return
			}
			next = min
			truncated = true
		}
	}
	// release everything and let the verifier settle
	close(tokens)
	idleSeen := 0
	for i := 0; ; i++ {
		s := coll.Summary().Counters
		if s["ranges_verified"]+s["dropped_reports"] >= s["checkpoints_written"] {
			break
		}
		if i < 100 {
			runtime.Gosched()
			continue
		}
		time.Sleep(20 * time.Microsecond)
		if i%2000 == 0 {
			if VerifiersIdle() {
				idleSeen++
			} else {
				idleSeen = 0
			}
			s = coll.Summary().Counters
			if idleSeen >= 2 && s["ranges_verified"]+s["dropped_reports"] < s["checkpoints_written"] {
				res.Fail = common.Failf("report-accounting", "the verifier is idle with nothing queued, yet %d checkpoints were written and only %d reports delivered + %d drops counted: a checkpoint produced neither", s["checkpoints_written"], s["ranges_verified"], s["dropped_reports"])
				return
			}
		}
	}
	for {
		select {
		case r := <-deliveredCh:
			delivered = append(delivered, r)
			continue
		default:
		}
		break
	}
	s := coll.Summary().Counters
	if s["checkpoints_written"] != uint64(cpCount) {
		res.Fail = common.Failf("counter/checkpoints_written", "checkpoints_written=%d, %d checkpoints were stored", s["checkpoints_written"], cpCount)
		return
	}
	if uint64(len(delivered))+s["dropped_reports"] != uint64(cpCount) {
		res.Fail = common.Failf("report-accounting", "%d checkpoints, %d delivered reports + %d counted drops", cpCount, len(delivered), s["dropped_reports"])
		return
	}
	if s["ranges_verified"] != uint64(len(delivered)) {
		res.Fail = common.Failf("counter/ranges_verified", "ranges_verified=%d, delivered=%d", s["ranges_verified"], len(delivered))
		return
	}
	// delivered ranges are triggered ranges, in order, at most once
	ti := 0
	var prev *verifier.VerificationReport
	dropsBetween := 0
	afterDrop := false
	for di := range delivered {
		r := delivered[di]
		found := false
		dropsBetween = 0
		for ti < len(triggered) {
			if triggered[ti] == r.Range {
				found = true
				ti++
				break
			}
			ti++
			dropsBetween++
		}
		if !found {
			res.Fail = common.Failf("report-unknown-range", "delivered report #%d for %v is not one of the remaining triggered ranges %v (order/duplication)", di, r.Range, triggered)
			return
		}
		if r.Err != nil && !corrupted && !truncated {
			res.Fail = common.Failf("false-alarm", "clean history: report %v carries Err=%v", r.Range, r.Err)
			return
		}
		if prev != nil && dropsBetween == 0 && !truncated && r.SkippedRange != nil {
			// nothing was dropped between two consecutive delivered reports of an untruncated log:
			// a skipped range here names entries that were in fact reported
			res.Fail = common.Failf("skipped-range-without-drop", "report %v follows %v directly (no checkpoint dropped in between, dropped_reports=%d) yet names SkippedRange=%v", r.Range, prev.Range, s["dropped_reports"], *r.SkippedRange)
			return
		}
		if prev != nil && dropsBetween > 0 {
			afterDrop = true
			want := verifier.LogRange{Start: prev.Range.End, End: r.Range.Start}
			if want.Start >= want.End {
				// the dropped checkpoint's entries were truncated away and re-written: the
				// next report starts where the previous one ended, so no index was skipped
				// and there is no range to name
				res.Classes = append(res.Classes, "dropped-range-truncated-away")
			} else if r.SkippedRange == nil || *r.SkippedRange != want {
				res.Fail = common.Failf("skipped-range-wrong", "%d checkpoint(s) dropped between delivered %v and %v: SkippedRange=%v, want %v", dropsBetween, prev.Range, r.Range, r.SkippedRange, want)
				return
			}
		}
		prev = &delivered[di]
	}
	if s["dropped_reports"] > 0 {
		res.Classes = append(res.Classes, "has-drop")
	}
	if afterDrop {
		res.Classes = append(res.Classes, "delivery-after-drop")
	}
	if truncated {
		res.Classes = append(res.Classes, "truncation-while-blocked")
	}
	if c.Follower {
		res.Classes = append(res.Classes, "blocked-follower")
		if corrupted {
			res.Classes = append(res.Classes, "blocked-follower-with-inflight-corruption")
		}
	}
	res.NonTrivial = s["dropped_reports"] > 0 && afterDrop
	res.Note = fmt.Sprintf("%d checkpoints, %d delivered, %d dropped", cpCount, len(delivered), s["dropped_reports"])
	return
}

func firstGoroutineWith(st, needle string) string {
	for _, g := range strings.Split(st, "\n\n") {
		if strings.Contains(g, needle) {
			if len(g) > 1500 {
				g = g[:1500]
			}
			return g
		}
	}
	return ""
}

func TestC18Blocked(t *testing.T) {
	common.Run(t, "C18", "C18Blocked", genBlock, runBlock)
}

// guarded runs one middleware call on its own goroutine. If the call is parked for good inside
// the named frame (stack evidence in two consecutive dumps, see common.WaitParked) it returns
// that stack; a call that is merely slow is waited for.
func guarded(frame string, fn func() error) (err error, stuck string) {
	done := make(chan struct{})
	go func() { err = fn(); close(done) }()
	if parked, st := common.WaitParked(done, frame, 2*time.Second, 5*time.Minute); parked {
		return nil, st
	}
	return err, ""
}
