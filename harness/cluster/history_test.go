package cluster

import (
	"encoding/binary"
	"errors"
	"fmt"
	"strings"
	"testing"

	"github.com/hashicorp/raft"
	"github.com/hashicorp/raft-wal/verifier"
	"pgregory.net/rapid"

	"verifharness/common"
	"verifharness/kit"
	"verifharness/refmodel"
)

func TestMain(m *testing.M) { common.Main(m) }

type ESpec struct {
	DataLen int   `json:"dl"`
	Seed    uint8 `json:"s"`
	CP      bool  `json:"cp,omitempty"`
	Cfg     bool  `json:"cfg,omitempty"`
	Ty      uint8 `json:"ty,omitempty"` // raft.LogType (0 command, 1 noop, 4 barrier, 5 configuration)
	// Err: the application's IsCheckpointFn fails on this entry
	Err bool `json:"err,omitempty"`
}

type HOp struct {
	K       string  `json:"k"` // append, repl, elect, restart, headtrunc
	Node    int     `json:"n"`
	Entries []ESpec `json:"e,omitempty"`
	Count   int     `json:"count,omitempty"` // repl: max entries to send (0 = all)
	Split   []int   `json:"split,omitempty"` // repl: batch sizes, cycled
	Keep    int     `json:"keep,omitempty"`  // headtrunc: entries to keep
}

// Mutation is the single divergence injected by C17 cases.
type Mutation struct {
	Role  string `json:"role"`  // follower, leader
	Mode  string `json:"mode"`  // inflight, atrest
	Pos   string `json:"pos"`   // first, middle, last
	Frac  int    `json:"frac"`  // selects the middle index
	Field string `json:"field"` // index, term, type, data-flip, data-trunc, data-extend, data-replace, ext-flip, ext-extend, swap
	Bit   int    `json:"bit"`
	// CompactAfterRead (at rest only): right after the verifier has read the last entry of the
	// divergent range, a head compaction removes everything up to and including the range's first
	// index. Every entry was read, so the divergence must still be reported as a checksum mismatch.
	CompactAfterRead bool `json:"compactAfterRead,omitempty"`
	// RestartMid (follower, at rest): the follower's middleware is restarted after it has stored
	// part of the window, so it has no written checksum for the range and verifies by reading back
	RestartMid bool `json:"restartMid,omitempty"`
}

type ClusterCase struct {
	N     int       `json:"nodes"`
	Inner string    `json:"inner"`
	Seg   int       `json:"seg"`
	Ops   []HOp     `json:"ops"`
	Epi   []ESpec   `json:"epi,omitempty"` // C17 epilogue: entries the leader appends before the final checkpoint
	Mut   *Mutation `json:"mut,omitempty"`
}

func genESpec(t *rapid.T, cpProb int) ESpec {
	e := ESpec{DataLen: rapid.SampledFrom([]int{0, 1, 2, 5, 16, 40}).Draw(t, "dl"), Seed: uint8(rapid.IntRange(0, 255).Draw(t, "seed"))}
	e.CP = rapid.IntRange(0, 99).Draw(t, "cp") < cpProb
	if !e.CP {
		e.Ty = rapid.SampledFrom([]uint8{0, 0, 0, 0, 1, 4, 5, 5}).Draw(t, "ty")
	}
	return e
}

func genHistory(t *rapid.T, maxOps int) ClusterCase {
	c := ClusterCase{}
	c.N = rapid.IntRange(2, 4).Draw(t, "nodes")
	c.Inner = rapid.SampledFrom([]string{"inmem", "inmem", "wal"}).Draw(t, "inner")
	c.Seg = rapid.SampledFrom([]int{128, 4096}).Draw(t, "seg")
	n := rapid.IntRange(3, maxOps).Draw(t, "nops")
	for i := 0; i < n; i++ {
		k := rapid.IntRange(0, 99).Draw(t, "k")
		switch {
		case k < 35:
			op := HOp{K: "append"}
			m := rapid.IntRange(1, 6).Draw(t, "n")
			for j := 0; j < m; j++ {
				op.Entries = append(op.Entries, genESpec(t, 25))
			}
			if i == 0 {
				op.Entries[0].Cfg = rapid.Bool().Draw(t, "cfg")
				op.Entries[0].CP = false
			} else if rapid.IntRange(0, 11).Draw(t, "cbErr") == 0 {
				// the application's IsCheckpointFn fails on one entry of this batch
				op.Entries[rapid.IntRange(0, m-1).Draw(t, "cbErrAt")].Err = true
			}
			c.Ops = append(c.Ops, op)
		case k < 70:
			op := HOp{K: "repl", Node: rapid.IntRange(0, c.N-1).Draw(t, "node"), Count: rapid.IntRange(0, 8).Draw(t, "count")}
			for j := 0; j < rapid.IntRange(1, 3).Draw(t, "ns"); j++ {
				op.Split = append(op.Split, rapid.IntRange(1, 4).Draw(t, "sp"))
			}
			c.Ops = append(c.Ops, op)
		case k < 82:
			c.Ops = append(c.Ops, HOp{K: "elect", Node: rapid.IntRange(0, c.N-1).Draw(t, "node")})
		case k < 89:
			c.Ops = append(c.Ops, HOp{K: "restart", Node: rapid.IntRange(0, c.N-1).Draw(t, "node")})
		case k < 93:
			// the node's underlying store rejects its next StoreLogs (nothing written); raft retries
			c.Ops = append(c.Ops, HOp{K: "failstore", Node: rapid.IntRange(0, c.N-1).Draw(t, "node")})
		default:
			if rapid.IntRange(0, 3).Draw(t, "queuedcompact") == 0 {
				op := HOp{K: "queuedcompact"}
				for j := 0; j < rapid.IntRange(0, 3).Draw(t, "n"); j++ {
					op.Entries = append(op.Entries, genESpec(t, 0))
				}
				c.Ops = append(c.Ops, op)
				break
			}
			if rapid.IntRange(0, 2).Draw(t, "racecompact") == 0 {
				// the leader appends while a compaction of entries behind its last checkpoint, running on
				// another goroutine (raft's snapshot goroutine), is inside the underlying store's DeleteRange
				op := HOp{K: "racecompact", Keep: rapid.IntRange(0, 3).Draw(t, "keep")}
				for j := 0; j < rapid.IntRange(1, 3).Draw(t, "n"); j++ {
					e := genESpec(t, 0)
					op.Entries = append(op.Entries, e)
				}
				c.Ops = append(c.Ops, op)
				break
			}
			c.Ops = append(c.Ops, HOp{K: "headtrunc", Node: rapid.IntRange(0, c.N-1).Draw(t, "node"), Keep: rapid.IntRange(0, 6).Draw(t, "keep")})
		}
	}
	return c
}

type sim struct {
	c       ClusterCase
	nodes   []*Node
	leader  int
	term    uint64
	truth   map[string]*CPTruth // checkpoint (idx@term) -> what the leader checksummed
	cls     map[string]bool
	nodeEv  []map[string]bool // per node: events since last checkpoint stored (restart, headtrunc, tailtrunc)
	reports int
	ntRep   int
	// C17
	mutNode   int
	mutIdx    uint64
	inflight  map[int]map[uint64]bool // node -> index that was handed an altered copy
	expectBad map[string]bool         // node/cpIdx expected to carry ErrChecksumMismatch
}

func newSim(c ClusterCase) (*sim, error) {
	s := &sim{c: c, term: 1, truth: map[string]*CPTruth{}, cls: map[string]bool{}, inflight: map[int]map[uint64]bool{}, expectBad: map[string]bool{}}
	for i := 0; i < c.N; i++ {
		n, err := NewNode(i, c.Inner, c.Seg)
		if err != nil {
			return nil, err
		}
		s.nodes = append(s.nodes, n)
		s.nodeEv = append(s.nodeEv, map[string]bool{})
	}
	return s, nil
}

func (s *sim) close() {
	for _, n := range s.nodes {
		n.Close()
	}
}

func (e ESpec) mk(idx, term uint64) *raft.Log {
	l := &raft.Log{Index: idx, Term: term, Type: raft.LogType(e.Ty)}
	if e.Cfg && idx == 1 {
		l.Type = raft.LogConfiguration
	}
	d := kit.Fill(e.DataLen, e.Seed, idx, uint8(term))
	if e.Err {
		d = append(append([]byte{}, errPrefix...), d...)
	} else if e.CP {
		d = append([]byte("CP"), d...)
	} else if len(d) >= 2 && d[0] == 'C' && d[1] == 'P' {
		d[0] = 'c'
	}
	l.Data = d
	return l
}

// leaderAppend appends entries on the leader through its middleware and
// records, for each checkpoint, what the leader checksummed.
func (s *sim) leaderAppend(es []ESpec) *common.Failure {
	ld := s.nodes[s.leader]
	start := ld.LogicalLast + 1
	var logs []*raft.Log
	for i, e := range es {
		logs = append(logs, e.mk(start+uint64(i), s.term))
	}
	hasErrEntry := false
	for _, e := range es {
		hasErrEntry = hasErrEntry || e.Err
	}
	lastBefore, _ := ld.inner.LastIndex()
	if err := ld.Store(logs); err != nil {
		if hasErrEntry && errors.Is(err, errCheckpointFn) {
			// the application's callback failed: the append is refused as a whole and leaves no trace
			if lastAfter, _ := ld.inner.LastIndex(); lastAfter != lastBefore {
				return common.Failf("refused-append-stored", "leader %d: StoreLogs(%d..%d) returned %v yet the underlying store's last index moved from %d to %d", s.leader, start, start+uint64(len(logs))-1, err, lastBefore, lastAfter)
			}
			s.cls["append-refused-by-checkpoint-callback"] = true
			return nil
		}
		return common.Failf("leader-store-err", "leader %d StoreLogs(%d..) = %v", s.leader, start, err)
	}
	if hasErrEntry {
		// accepted although the callback failed: not for this property to judge; the batch is in the
		// store now and the reports that follow are held to the usual rule
		s.cls["callback-error-but-stored"] = true
	}
	if f := s.recordTruth(ld, logs); f != nil {
		return f
	}
	return s.settle(ld)
}

// recordTruth notes, for every checkpoint among the entries the leader just stored, what it checksummed.
func (s *sim) recordTruth(ld *Node, logs []*raft.Log) *common.Failure {
	for _, l := range logs {
		if ok, _ := isCheckpoint(l); ok {
			if len(l.Extensions) < 24 {
				return common.Failf("leader-cp-no-meta", "leader checkpoint %d has no verification metadata", l.Index)
			}
			st := binary.LittleEndian.Uint64(l.Extensions[8:16])
			tr := &CPTruth{Start: st, End: l.Index, Entries: map[uint64]*raft.Log{}}
			for i := st; i < l.Index; i++ {
				if e, ok := ld.Told.Get(i); ok {
					tr.Entries[i] = e
				}
			}
			s.truth[cpKey(l.Index, l.Term)] = tr
			s.nodeEv[s.leader] = map[string]bool{}
		}
	}
	return nil
}

// queuedCompact: while the leader's report callback is held inside the report of checkpoint A,
// checkpoint B is stored (its report waits in the hand-off buffer) and a head compaction then
// removes the start of B's range. When B is verified the node lacks part of the range: the
// report must say ErrRangeMismatch. (A was verified before the compaction and is judged against
// what the node held then.)
func (s *sim) queuedCompact(op HOp) *common.Failure {
	ld := s.nodes[s.leader]
	if f := s.settle(ld); f != nil {
		return f
	}
	if ld.Told.Empty() {
		return nil
	}
	block, entered := make(chan struct{}), make(chan struct{}, 1)
	ld.mu.Lock()
	ld.block, ld.entered = block, entered
	ld.mu.Unlock()
	released := false
	release := func() {
		if released {
			return
		}
		released = true
		ld.mu.Lock()
		close(ld.block)
		ld.block, ld.entered = nil, nil
		ld.mu.Unlock()
	}
	defer release()
	next := ld.LogicalLast + 1
	a := []*raft.Log{ESpec{DataLen: 3, Seed: 17, CP: true}.mk(next, s.term)}
	if err := ld.Store(a); err != nil {
		return common.Failf("leader-store-err", "%v", err)
	}
	if f := s.recordTruth(ld, a); f != nil {
		return f
	}
	<-entered
	var b []*raft.Log
	for i, e := range op.Entries {
		e.CP, e.Err = false, false
		b = append(b, e.mk(next+1+uint64(i), s.term))
	}
	cpB := ESpec{DataLen: 2, Seed: 18, CP: true}.mk(next+1+uint64(len(op.Entries)), s.term)
	b = append(b, cpB)
	if err := ld.Store(b); err != nil {
		return common.Failf("leader-store-err", "%v", err)
	}
	if f := s.recordTruth(ld, b); f != nil {
		return f
	}
	trB := s.truth[cpKey(cpB.Index, cpB.Term)]
	toldBefore := ld.Told.Clone()
	if trB == nil || trB.Start < ld.Told.First {
		return nil
	}
	if err := ld.Delete(ld.Told.First, trB.Start); err != nil {
		return common.Failf("delete-err", "leader head DeleteRange = %v", err)
	}
	s.nodeEv[s.leader]["headtrunc"] = true
	release()
	ld.Quiesce()
	if ld.AccountingFail != "" {
		return common.Failf("checkpoint-unaccounted", "%s", ld.AccountingFail)
	}
	for _, r := range ld.TakeReports() {
		toldNow := ld.Told
		if r.Range.End == a[0].Index {
			ld.Told = toldBefore // verified before the compaction
		}
		f := s.judge(ld, r)
		ld.Told = toldNow
		if f != nil {
			return f
		}
	}
	s.cls["compaction-while-report-queued"] = true
	return nil
}

// replicate brings follower f towards the leader's log, raft style.
func (s *sim) replicate(f int, count int, split []int, alter func(*raft.Log)) *common.Failure {
	if f == s.leader {
		return nil
	}
	ld, fo := s.nodes[s.leader], s.nodes[f]
	if ld.Told.Empty() {
		return nil
	}
	// follower too far behind the leader's first index: install snapshot (drop everything)
	if fo.LogicalLast+1 < ld.Told.First {
		if !fo.Told.Empty() {
			if err := fo.Delete(fo.Told.First, fo.Told.Last); err != nil {
				return common.Failf("follower-delete-err", "%v", err)
			}
			s.nodeEv[f]["headtrunc"] = true
		}
		fo.LogicalLast = ld.Told.First - 1
		s.cls["snapshot-install"] = true
	}
	// conflict detection: first index where terms differ or leader lacks it
	if !fo.Told.Empty() {
		for i := fo.Told.First; i <= fo.Told.Last; i++ {
			le, ok := ld.Told.Get(i)
			fe, _ := fo.Told.Get(i)
			if i < ld.Told.First {
				continue
			}
			if !ok || le.Term != fe.Term {
				if err := fo.Delete(i, fo.Told.Last); err != nil {
					return common.Failf("follower-delete-err", "follower %d DeleteRange(%d,%d) = %v", f, i, fo.Told.Last, err)
				}
				fo.LogicalLast = i - 1
				s.nodeEv[f]["tailtrunc"] = true
				s.cls["conflict-suffix-truncated"] = true
				break
			}
		}
	}
	next := fo.LogicalLast + 1
	if next < ld.Told.First {
		next = ld.Told.First
	}
	end := ld.Told.Last
	if count > 0 && next+uint64(count)-1 < end {
		end = next + uint64(count) - 1
	}
	si := 0
	for next <= end {
		n := 1
		if len(split) > 0 {
			n = split[si%len(split)]
			si++
		}
		var batch []*raft.Log
		for i := 0; i < n && next <= end; i++ {
			e, _ := ld.Told.Get(next)
			cp := refmodel.CloneLog(e)
			if alter != nil {
				alter(cp)
			}
			batch = append(batch, cp)
			next++
		}
		hasCP := false
		for _, l := range batch {
			if ok, _ := isCheckpoint(l); ok {
				hasCP = true
			}
		}
		if err := fo.Store(batch); err != nil {
			return common.Failf("follower-store-err", "follower %d StoreLogs(%d..%d) = %v", f, batch[0].Index, batch[len(batch)-1].Index, err)
		}
		if len(batch) > 1 {
			s.cls["multi-entry-replication-batch"] = true
		}
		if hasCP {
			if fl := s.settle(fo); fl != nil {
				return fl
			}
			s.nodeEv[f] = map[string]bool{}
		}
	}
	return nil
}

// settle waits for the node's verifier and judges every delivered report.
func (s *sim) settle(n *Node) *common.Failure {
	n.Quiesce()
	if n.AccountingFail != "" {
		return common.Failf("checkpoint-unaccounted", "%s", n.AccountingFail)
	}
	for _, r := range n.TakeReports() {
		if f := s.judge(n, r); f != nil {
			return f
		}
	}
	return nil
}

// blamesInflight: the report says the node wrote something other than what the leader
// checksummed - by its sums, or in so many words.
func blamesInflight(r verifier.VerificationReport) bool {
	if r.WrittenSum != 0 && r.WrittenSum != r.ExpectedSum {
		return true
	}
	return r.Err != nil && strings.Contains(r.Err.Error(), "in-flight corruption")
}

func (s *sim) judge(n *Node, r verifier.VerificationReport) *common.Failure {
	s.reports++
	n.Delivered++
	var cm verifier.ErrChecksumMismatch
	if errors.As(r.Err, &cm) {
		if blamesInflight(r) {
			n.MismatchWritten++
		} else {
			n.MismatchRead++
		}
	}
	cpEntry, ok := n.Told.Get(r.Range.End)
	if !ok {
		return common.Failf("report-unknown-range", "node %d got a report for range %v whose checkpoint it does not hold", n.ID, r.Range)
	}
	tr, ok := s.truth[cpKey(r.Range.End, cpEntry.Term)]
	if !ok {
		return common.Failf("report-unknown-cp", "node %d: report for %v matches no leader checkpoint", n.ID, r.Range)
	}
	if tr.Start != r.Range.Start {
		return common.Failf("report-wrong-start", "node %d: report range %v, leader checksummed [%d,%d)", n.ID, r.Range, tr.Start, tr.End)
	}
	var mm verifier.ErrChecksumMismatch
	isMismatch := errors.As(r.Err, &mm)
	ev := s.nodeEv[n.ID]
	if len(ev) > 0 {
		s.ntRep++
		for k := range ev {
			s.cls["report-after-"+k] = true
		}
	}
	key := fmt.Sprintf("%d/%d", n.ID, r.Range.End)
	if s.expectBad[key] {
		// C17: this node's copy of the range diverges from what the leader checksummed
		delete(s.expectBad, key)
		s.cls["divergent-range-verified"] = true
		if n.Told.First > tr.Start {
			s.cls["divergent-range-not-held"] = true
			return nil
		}
		if !isMismatch {
			return common.Failf("divergence-missed/"+s.c.Mut.Mode+"/"+s.c.Mut.Field, "node %d holds range %v with entry %d altered (%s, %s) but the report says Err=%v (written=%x read=%x expected=%x)", n.ID, r.Range, s.mutIdx, s.c.Mut.Mode, s.c.Mut.Field, r.Err, r.WrittenSum, r.ReadSum, r.ExpectedSum)
		}
		if blamesInflight(r) && !s.inflight[n.ID][s.mutIdx] {
			return common.Failf("wrong-blame-inflight", "node %d: report for %v blames in-flight corruption but the node was handed exactly the leader's entries (mutation was %s)", n.ID, r.Range, s.c.Mut.Mode)
		}
		return nil
	}
	if n.Told.First > tr.Start || n.Told.Empty() {
		s.cls["range-not-held"] = true
		if !errors.Is(r.Err, verifier.ErrRangeMismatch) {
			return common.Failf("range-mismatch-expected", "node %d holds [%d,%d], range %v starts earlier, but report Err=%v (want ErrRangeMismatch)", n.ID, n.Told.First, n.Told.Last, r.Range, r.Err)
		}
		return nil
	}
	// does the node hold exactly what the leader checksummed?
	same := true
	for i := tr.Start; i < tr.End; i++ {
		a, ok1 := tr.Entries[i]
		b, ok2 := n.Told.Get(i)
		if !ok1 || !ok2 || refmodel.Diff(a, b) != "" {
			same = false
			break
		}
	}
	if !same {
		s.cls["range-differs-from-leader-truth"] = true
		return nil
	}
	s.cls["clean-range-verified"] = true
	if r.Err != nil {
		sig := "false-alarm"
		if isMismatch {
			if blamesInflight(r) {
				sig = "false-alarm/inflight"
			} else {
				sig = "false-alarm/storage"
			}
		}
		role := "follower"
		if n.ID == s.leader {
			role = "leader"
		}
		return common.Failf(sig, "node %d (%s) holds range %v exactly as the leader wrote it, yet the report carries Err=%v (written=%x read=%x expected=%x; node events since previous checkpoint: %v)", n.ID, role, r.Range, r.Err, r.WrittenSum, r.ReadSum, r.ExpectedSum, ev)
	}
	return nil
}

func (s *sim) run() *common.Failure {
	for _, op := range s.c.Ops {
		var f *common.Failure
		switch op.K {
		case "append":
			f = s.leaderAppend(op.Entries)
		case "repl":
			f = s.replicate(op.Node%s.c.N, op.Count, op.Split, nil)
		case "elect":
			nl := op.Node % s.c.N
			if nl != s.leader {
				s.leader = nl
				s.term++
				s.cls["leader-change"] = true
			}
		case "restart":
			i := op.Node % s.c.N
			s.nodes[i].Restart()
			s.nodeEv[i]["restart"] = true
		case "failstore":
			i := op.Node % s.c.N
			s.nodes[i].rest.mu.Lock()
			s.nodes[i].rest.failStores = 1
			s.nodes[i].rest.mu.Unlock()
			s.cls["store-failure-armed"] = true
		case "racecompact":
			f = s.raceCompact(op)
		case "queuedcompact":
			f = s.queuedCompact(op)
		case "headtrunc":
			i := op.Node % s.c.N
			n := s.nodes[i]
			if n.Told.Len() > uint64(op.Keep) {
				max := n.Told.Last - uint64(op.Keep)
				if err := n.Delete(n.Told.First, max); err != nil {
					return common.Failf("delete-err", "node %d head DeleteRange = %v", i, err)
				}
				s.nodeEv[i]["headtrunc"] = true
			}
		}
		if f != nil {
			return f
		}
	}
	return nil
}

// raceCompact: a head compaction of entries strictly behind the leader's last checkpoint is
// started on its own goroutine and parked inside the underlying store's DeleteRange; the leader
// appends meanwhile; then the compaction finishes. Both are legal concurrently (raft compacts
// from its snapshot goroutine) and touch disjoint parts of the log.
func (s *sim) raceCompact(op HOp) *common.Failure {
	ld := s.nodes[s.leader]
	if ld.Told.Empty() {
		return nil
	}
	// last checkpoint the leader holds
	var lastCP uint64
	for i := ld.Told.Last; i >= ld.Told.First && i > 0; i-- {
		if e, ok := ld.Told.Get(i); ok {
			if cp, _ := isCheckpoint(e); cp {
				lastCP = i
				break
			}
		}
	}
	if lastCP == 0 || lastCP <= ld.Told.First+uint64(op.Keep) {
		return nil
	}
	max := lastCP - 1 - uint64(op.Keep)
	min := ld.Told.First
	parked, release := make(chan struct{}), make(chan struct{})
	ld.rest.setGate(func(uint64, uint64) { close(parked); <-release })
	done := make(chan error, 1)
	go func() { done <- ld.V.DeleteRange(min, max) }()
	early := false
	var derr error
	select {
	case <-parked:
	case derr = <-done:
		early = true // never reached the underlying store
	}
	ld.rest.setGate(nil)
	f := s.leaderAppend(op.Entries)
	if !early {
		close(release)
		derr = <-done
	}
	if derr != nil {
		return common.Failf("delete-err", "leader head DeleteRange(%d,%d) racing with an append = %v", min, max, derr)
	}
	ld.Told.Delete(min, max)
	s.nodeEv[s.leader]["headtrunc"] = true
	s.cls["compaction-racing-append"] = true
	return f
}

func runC16(c ClusterCase) (res common.Result) {
	s, err := newSim(c)
	if err != nil {
		res.Fail = common.Failf("harness", "%v", err)
		return
	}
	defer s.close()
	res.Fail = s.run()
	res.NonTrivial = s.ntRep > 0
	res.Sub = 1
	for k := range s.cls {
		res.Classes = append(res.Classes, k)
	}
	res.Note = fmt.Sprintf("%d reports judged, %d non-trivial", s.reports, s.ntRep)
	return
}

func TestC16NoFalseAlarm(t *testing.T) {
	common.Run(t, "C16", "C16History", func(t *rapid.T) ClusterCase { return genHistory(t, 40) }, runC16)
}
