package dmg

import (
	"bytes"
	"testing"
	"time"

	"github.com/hashicorp/raft"
	wal "github.com/hashicorp/raft-wal"
	"github.com/hashicorp/raft-wal/segment"
	"github.com/hashicorp/raft-wal/types"

	"verifharness/kit"
	"verifharness/refmodel"
	"verifharness/simfs"
)

// Native fuzz targets (thorough tier only; `go test -fuzz` cannot be pinned to
// a seed, the saved crasher is the reproducible unit). The semantic oracle is
// inside each target.

func FuzzDecode(f *testing.F) {
	for _, idx := range []uint64{0, 1, 127, 128, 1 << 40, ^uint64(0)} {
		for _, dl := range []int{0, 1, 200} {
			b, _ := refmodel.EncodeLog(kit.EntrySpec{DataLen: dl, ExtLen: dl % 3, Term: idx % 500, Time: int64(dl) * 1e12}.Make(idx, 0))
			f.Add(b)
		}
	}
	f.Add(bytes.Repeat([]byte{0xff}, 11))
	f.Add(bytes.Repeat([]byte{0x80}, 10))
	f.Add([]byte{1, 1, 0, 0xff, 0xff, 0xff, 0xff, 0x0f})
	f.Add([]byte{})
	f.Add([]byte("000\x00\x00\x02000000000000\x8000")) // zone offset -32720m48s: stdlib does not round-trip it
	f.Fuzz(func(t *testing.T, b []byte) {
		_, refErr := refmodel.DecodeLog(b)
		var got raft.Log
		derr := (&wal.BinaryCodec{}).Decode(append([]byte(nil), b...), &got) // a panic is a crash
		if refErr != nil && derr == nil {
			t.Fatalf("Decode accepted a structurally invalid encoding %x", b)
		}
		if refErr == nil && derr != nil {
			t.Fatalf("Decode rejected an encoding the documented format accepts %x: %v", b, derr)
		}
		if refErr == nil && stdlibTimeRoundTrips(got.AppendedAt) {
			// round trip: re-encoding what was decoded must decode to the same log. (Zone
			// offsets with a negative seconds part do not survive time.MarshalBinary in the
			// standard library itself; the codec is documented to use it, so those are out
			// of the domain - a false alarm of the thorough tier came from exactly that.)
			var buf bytes.Buffer
			if err := (&wal.BinaryCodec{}).Encode(&got, &buf); err == nil {
				var again raft.Log
				if err := (&wal.BinaryCodec{}).Decode(buf.Bytes(), &again); err != nil || refmodel.Diff(&got, &again) != "" {
					t.Fatalf("decode/encode/decode not stable for %x: %v", b, err)
				}
			}
		}
	})
}

func stdlibTimeRoundTrips(t time.Time) bool {
	b, err := t.MarshalBinary()
	if err != nil {
		return false
	}
	var u time.Time
	if u.UnmarshalBinary(b) != nil || !u.Equal(t) {
		return false
	}
	_, a := t.Zone()
	_, c := u.Zone()
	return a == c
}

func seedFiles(f *testing.F, add func(b []byte)) {
	for _, base := range []Base{
		{SegSize: 4096, Sizes: []int{10, 20, 30}, Batch: 2, Start: 1},
		{SegSize: 256, Sizes: []int{100, 100, 100, 60}, Batch: 1, Start: 1},
		{SegSize: 512, Sizes: []int{0, 5, 300}, Batch: 3, Start: 1},
	} {
		fs, err := build(base)
		if err != nil {
			f.Fatal(err)
		}
		for _, n := range fs.Names() {
			b, _ := fs.ReadFile(n)
			add(b)
		}
	}
}

func FuzzRecoverTail(f *testing.F) {
	seedFiles(f, func(b []byte) { f.Add(b) })
	f.Add(make([]byte, 64))
	f.Fuzz(func(t *testing.T, content []byte) {
		if len(content) > 1<<20 {
			return
		}
		fs := simfs.New()
		info := types.SegmentInfo{ID: 0, BaseIndex: 1, MinIndex: 1, SizeLimit: 4096}
		fs.WriteFile(segment.FileName(info), content)
		fs.ReadBudget = func(name string, size int) int { return 64 + 4*size/8 }
		filer := segment.NewFiler(kit.SimDir, fs)
		bound := uint64(4*len(content) + 2*segment.MaxEntrySize + 4<<20)
		var sw types.SegmentWriter
		var err error
		if a := allocOf(func() { sw, err = filer.RecoverTail(info) }); a > bound {
			t.Fatalf("RecoverTail allocated %d bytes for a %d-byte file", a, len(content))
		}
		if err != nil {
			if n := fs.OpenHandles(); n != 0 {
				t.Fatalf("RecoverTail failed (%v) leaving %d handles open", err, n)
			}
			return
		}
		last := sw.LastIndex()
		for i := uint64(1); i <= last && i < 200; i++ {
			if pb, err := sw.GetLog(i); err == nil {
				pb.Close()
			}
		}
		next := last + 1
		if last == 0 {
			next = 1
		}
		if err := sw.Append([]types.LogEntry{{Index: next, Data: []byte("after")}}); err == nil {
			// what was just acknowledged must be readable
			pb, err := sw.GetLog(next)
			if err != nil || string(pb.Bs) != "after" {
				t.Fatalf("entry appended after recovery is not readable: %v", err)
			}
			pb.Close()
		}
		sw.Close()
		_ = filer.DumpSegment(1, 0, 0, 0, func(types.SegmentInfo, types.LogEntry) (bool, error) { return true, nil })
	})
}

func FuzzSealedReader(f *testing.F) {
	seedFiles(f, func(b []byte) { f.Add(b, uint32(len(b)/2), uint8(3)) })
	f.Fuzz(func(t *testing.T, content []byte, indexStart uint32, n uint8) {
		if len(content) > 1<<20 {
			return
		}
		fs := simfs.New()
		info := types.SegmentInfo{ID: 0, BaseIndex: 1, MinIndex: 1, MaxIndex: uint64(n), IndexStart: uint64(indexStart), SizeLimit: 4096}
		info.SealTime = info.CreateTime.AddDate(1, 0, 0)
		fs.WriteFile(segment.FileName(info), content)
		fs.ReadBudget = func(name string, size int) int { return 64 + 4*size/8 + 8*int(n) }
		filer := segment.NewFiler(kit.SimDir, fs)
		sr, err := filer.Open(info)
		if err != nil {
			if h := fs.OpenHandles(); h != 0 {
				t.Fatalf("Filer.Open failed (%v) leaving %d handles open", err, h)
			}
			return
		}
		bound := uint64(4*len(content) + 2*segment.MaxEntrySize + 4<<20)
		for i := uint64(0); i <= uint64(n)+1; i++ {
			if a := allocOf(func() {
				if pb, err := sr.GetLog(i); err == nil {
					pb.Close()
				}
			}); a > bound {
				t.Fatalf("GetLog(%d) allocated %d bytes", i, a)
			}
		}
		sr.Close()
	})
}
