package dmg

import (
	"bytes"
	"fmt"
	"os"
	"path/filepath"
	"strings"
	"syscall"
	"testing"
	"time"

	"github.com/hashicorp/raft"
	wal "github.com/hashicorp/raft-wal"
	"github.com/hashicorp/raft-wal/segment"
	"github.com/hashicorp/raft-wal/types"
	"go.etcd.io/bbolt"
	"pgregory.net/rapid"

	"verifharness/common"
	"verifharness/kit"
	"verifharness/refmodel"
	"verifharness/simfs"
)

func TestMain(m *testing.M) { common.Main(m) }

var fileKinds = []string{"flip", "flip", "set", "hdrflip", "frameflip", "frameflip", "lenedit", "lenedit", "typeedit", "hdrword", "hdrword", "tailword", "zero", "trunc", "trunc", "splice", "dupframe", "indexedit", "indexedit", "hdrswap", "garbage", "remove", "strayfile"}
var metaKinds = []string{"dupbase", "unsealmid", "sealtail", "zerobase", "indexstart", "minmax", "maxhuge", "sizelimit", "swap", "drop", "nextid", "codec", "idedit", "empty", "textflip", "texttrunc", "textset", "textgarbage"}

func genBase(t *rapid.T) Base {
	b := Base{SegSize: rapid.SampledFrom([]int{128, 256, 512, 4096}).Draw(t, "seg")}
	n := rapid.IntRange(1, 14).Draw(t, "n")
	for i := 0; i < n; i++ {
		b.Sizes = append(b.Sizes, rapid.SampledFrom([]int{0, 5, 20, 60, 61, 100, 300}).Draw(t, "sz"))
	}
	b.Batch = rapid.IntRange(1, 3).Draw(t, "batch")
	b.Start = rapid.SampledFrom([]uint64{1, 1, 7, 1 << 33}).Draw(t, "start")
	b.HeadDel = rapid.IntRange(0, 3).Draw(t, "hd")
	b.TailDel = rapid.SampledFrom([]int{0, 0, 1, 2}).Draw(t, "td")
	return b
}

func genMut(t *rapid.T, meta bool) Mut {
	m := Mut{Off: rapid.IntRange(0, 100000).Draw(t, "off"), Len: rapid.SampledFrom([]int{1, 4, 8, 9, 32, 200}).Draw(t, "len"),
		Val: rapid.Uint32().Draw(t, "val"), Src: rapid.IntRange(0, 8).Draw(t, "src")}
	if meta {
		m.File = -1
		m.Kind = rapid.SampledFrom(metaKinds).Draw(t, "mkind")
	} else {
		m.File = rapid.IntRange(0, 8).Draw(t, "file")
		m.Kind = rapid.SampledFrom(fileKinds).Draw(t, "fkind")
	}
	return m
}

func genCase(metaOnly bool) func(t *rapid.T) Case {
	return func(t *rapid.T) Case {
		c := Case{Base: genBase(t)}
		n := rapid.SampledFrom([]int{1, 1, 1, 2, 3}).Draw(t, "nmuts")
		for i := 0; i < n; i++ {
			c.Muts = append(c.Muts, genMut(t, metaOnly || rapid.IntRange(0, 5).Draw(t, "ismeta") == 0))
		}
		return c
	}
}

// runOpenDir damages a valid directory and exercises Open, reads, an append and the dump utilities.
func runOpenDir(c Case) (res common.Result) {
	fs, err := build(c.Base)
	if err != nil {
		res.Fail = common.Failf("harness", "building the valid directory failed: %v", err)
		return
	}
	di := apply(fs, c.Muts)
	if di.effective == 0 {
		res.Classes = []string{"mutation-ineffective"}
		return
	}
	for _, k := range di.kinds {
		res.Classes = append(res.Classes, "mut:"+k)
	}
	res.NonTrivial = true
	total := dirBytes(fs)
	bound := uint64(4*total + 2*segment.MaxEntrySize + 4<<20)
	fs.ReadBudget = func(name string, size int) int { return 64 + 4*size/8 }

	var w *wal.WAL
	var oerr error
	var alloc uint64
	if f := guard("Open", func() {
		alloc = allocOf(func() { w, oerr = kit.Cfg{SegSize: c.Base.SegSize, FS: fs}.Open() })
	}); f != nil {
		res.Fail = f
		return
	}
	if alloc > bound {
		res.Fail = common.Failf("alloc/Open", "Open allocated %d bytes on a %d-byte directory (bound %d)", alloc, total, bound)
		return
	}
	if oerr != nil {
		res.Classes = append(res.Classes, "open-error")
		if n := fs.OpenHandles(); n != 0 {
			res.Fail = common.Failf("open-failed-leaks-handles", "Open failed (%v) but left %d file handles open", oerr, n)
			return
		}
		return
	}
	defer w.Close()
	res.Classes = append(res.Classes, "open-ok")
	if len(di.sealedBroken) > 0 && !di.metaTouched {
		res.Fail = common.Failf("sealed-damage-not-detected", "sealed segment(s) %v were removed / truncated below the header / given a foreign header, yet Open succeeded", di.sealedBroken)
		return
	}
	var first, last uint64
	if f := guard("bounds", func() { first, _ = w.FirstIndex(); last, _ = w.LastIndex() }); f != nil {
		res.Fail = f
		return
	}
	// read sweep (bounded: damaged metadata may claim a huge range)
	idxs := []uint64{0, first, last, last + 1}
	if first > 0 {
		idxs = append(idxs, first-1)
	}
	for i := first; i <= last && i < first+40; i++ {
		idxs = append(idxs, i)
	}
	for i := last; i > first && i > last-10 && i > 0; i-- {
		idxs = append(idxs, i)
	}
	for _, i := range idxs {
		var l raft.Log
		var a uint64
		if f := guard(fmt.Sprintf("GetLog(%d)", i), func() { a = allocOf(func() { _ = w.GetLog(i, &l) }) }); f != nil {
			res.Fail = f
			return
		}
		if a > bound {
			res.Fail = common.Failf("alloc/GetLog", "GetLog(%d) allocated %d bytes (bound %d)", i, a, bound)
			return
		}
	}
	if f := guard("StoreLogs", func() {
		_ = w.StoreLogs([]*raft.Log{{Index: last + 1, Data: []byte("after-damage")}})
		kit.Barrier(w)
	}); f != nil {
		res.Fail = f
		return
	}
	filer := segment.NewFiler(kit.SimDir, fs)
	var a uint64
	if f := guard("DumpLogs", func() {
		a = allocOf(func() {
			_ = filer.DumpLogs(0, 0, func(info types.SegmentInfo, e types.LogEntry) (bool, error) { return true, nil })
		})
	}); f != nil {
		res.Fail = f
		return
	}
	if a > bound {
		res.Fail = common.Failf("alloc/DumpLogs", "DumpLogs allocated %d bytes (bound %d)", a, bound)
		return
	}
	return
}

func TestC11OpenDir(t *testing.T) { common.Run(t, "C11", "C11OpenDir", genCase(false), runOpenDir) }
func TestC11Meta(t *testing.T)    { common.Run(t, "C11", "C11Meta", genCase(true), runOpenDir) }

// ---- raw segment images straight into the Filer (tail recovery and sealed reader)

func runRaw(c Case) (res common.Result) {
	fs, err := build(c.Base)
	if err != nil {
		res.Fail = common.Failf("harness", "%v", err)
		return
	}
	di := apply(fs, c.Muts)
	if di.effective == 0 {
		return
	}
	res.NonTrivial = true
	for _, k := range di.kinds {
		res.Classes = append(res.Classes, "mut:"+k)
	}
	st, ok := fs.MetaState()
	if !ok {
		return
	}
	fs.ReadBudget = func(name string, size int) int { return 64 + 4*size/8 }
	filer := segment.NewFiler(kit.SimDir, fs)
	total := dirBytes(fs)
	bound := uint64(4*total + 2*segment.MaxEntrySize + 4<<20)
	for _, si := range st.Segments {
		si := si
		var a uint64
		if si.SealTime.IsZero() {
			var sw types.SegmentWriter
			var err error
			if f := guard("RecoverTail", func() { a = allocOf(func() { sw, err = filer.RecoverTail(si) }) }); f != nil {
				res.Fail = f
				return
			}
			if a > bound {
				res.Fail = common.Failf("alloc/RecoverTail", "RecoverTail allocated %d bytes (bound %d)", a, bound)
				return
			}
			if err != nil {
				res.Classes = append(res.Classes, "recover-error")
				continue
			}
			res.Classes = append(res.Classes, "recover-ok")
			last := sw.LastIndex()
			if f := guard("tail.GetLog", func() {
				for i := si.BaseIndex; i <= last && i < si.BaseIndex+64; i++ {
					if pb, err := sw.GetLog(i); err == nil {
						pb.Close()
					}
				}
				next := last + 1
				if last == 0 {
					next = si.BaseIndex
				}
				_ = sw.Append([]types.LogEntry{{Index: next, Data: []byte("x")}})
			}); f != nil {
				res.Fail = f
				return
			}
			sw.Close()
		} else {
			var sr types.SegmentReader
			var err error
			if f := guard("Filer.Open", func() { sr, err = filer.Open(si) }); f != nil {
				res.Fail = f
				return
			}
			if err != nil {
				res.Classes = append(res.Classes, "sealed-open-error")
				continue
			}
			if f := guard("sealed.GetLog", func() {
				for i := si.MinIndex; i <= si.MaxIndex && i < si.MinIndex+64; i++ {
					a = allocOf(func() {
						if pb, err := sr.GetLog(i); err == nil {
							pb.Close()
						}
					})
					if a > bound {
						panic(fmt.Sprintf("alloc bound exceeded: %d", a))
					}
				}
			}); f != nil {
				res.Fail = f
				return
			}
			sr.Close()
		}
		if f := guard("DumpSegment", func() {
			_ = filer.DumpSegment(si.BaseIndex, si.ID, 0, 0, func(info types.SegmentInfo, e types.LogEntry) (bool, error) { return true, nil })
		}); f != nil {
			res.Fail = f
			return
		}
	}
	return
}

func TestC11Segments(t *testing.T) { common.Run(t, "C11", "C11Segments", genCase(false), runRaw) }

// ---- codec payloads: structurally invalid encodings must be rejected, nothing may panic

type DecodeCase struct {
	Log  kit.EntrySpec `json:"log"`
	Idx  uint64        `json:"idx"`
	Kind string        `json:"kind"` // valid, trunc, flip, overlong, hugeLen, garbage, append
	Off  int           `json:"off"`
	Val  uint32        `json:"val"`
	Raw  []byte        `json:"raw,omitempty"`
}

func genDecode(t *rapid.T) DecodeCase {
	c := DecodeCase{Idx: rapid.SampledFrom([]uint64{0, 1, 127, 128, 1 << 40, ^uint64(0)}).Draw(t, "idx")}
	c.Log = kit.EntrySpec{DataLen: rapid.SampledFrom([]int{0, 1, 10, 200}).Draw(t, "dl"), ExtLen: rapid.SampledFrom([]int{0, 0, 3}).Draw(t, "el"), Term: uint64(rapid.IntRange(0, 300).Draw(t, "term")), Seed: 3}
	if rapid.Bool().Draw(t, "tm") {
		c.Log.Time = rapid.Int64Range(1, 4e18).Draw(t, "time")
	}
	c.Kind = rapid.SampledFrom([]string{"trunc", "trunc", "flip", "flip", "overlong", "hugeLen", "garbage", "append", "ff"}).Draw(t, "kind")
	c.Off = rapid.IntRange(0, 100000).Draw(t, "off")
	c.Val = rapid.Uint32().Draw(t, "val")
	if c.Kind == "garbage" {
		c.Raw = rapid.SliceOfN(rapid.Byte(), 0, 64).Draw(t, "raw")
	}
	return c
}

func runDecode(c DecodeCase) (res common.Result) {
	l := c.Log.Make(c.Idx, 0)
	enc, err := refmodel.EncodeLog(l)
	if err != nil {
		return
	}
	b := append([]byte(nil), enc...)
	switch c.Kind {
	case "trunc":
		b = b[:c.Off%len(b)]
	case "flip":
		b[c.Off%len(b)] ^= 1 << (c.Val % 8)
	case "overlong":
		// replace the first varint by 10+ continuation bytes
		b = append(bytes.Repeat([]byte{0xff}, 10+int(c.Val%3)), b[1:]...)
	case "ff":
		b = bytes.Repeat([]byte{0xff}, 1+c.Off%24)
	case "hugeLen":
		// the Data length varint claims more than remains
		pre := refmodel.EncodedLen(&raft.Log{Index: l.Index, Term: l.Term, Type: l.Type}) - 17 // index, term, type
		if pre > 0 && pre < len(b) {
			b = append(append(append([]byte(nil), b[:pre]...), 0xff, 0xff, 0xff, 0xff, 0x0f), b[pre+1:]...)
		}
	case "garbage":
		b = c.Raw
	case "append":
		b = append(b, byte(c.Val), byte(c.Val>>8))
	}
	res.NonTrivial = !bytes.Equal(b, enc)
	res.Classes = []string{"decode:" + c.Kind}
	_, refErr := refmodel.DecodeLog(b)
	var got raft.Log
	var derr error
	in := append([]byte(nil), b...)
	if f := guard("Decode", func() { derr = (&wal.BinaryCodec{}).Decode(in, &got) }); f != nil {
		res.Fail = f
		return
	}
	if refErr != nil {
		res.Classes = append(res.Classes, "structurally-invalid")
		if derr == nil {
			res.Fail = common.Failf("decode-accepts-invalid", "Decode of a structurally invalid encoding (%s of a valid entry, %d bytes: %x) returned nil", c.Kind, len(b), headOf(b))
		}
	} else if derr != nil {
		// the reference decoder accepts it, so must production
		res.Fail = common.Failf("decode-rejects-valid", "Decode rejected an encoding the documented format accepts (%x): %v", headOf(b), derr)
	}
	return
}

func headOf(b []byte) []byte {
	if len(b) > 40 {
		return b[:40]
	}
	return b
}

func TestC11Decode(t *testing.T) { common.Run(t, "C11", "C11Decode", genDecode, runDecode) }

// ---- real stack: a failed Open leaves nothing locked or open

type LockCase struct {
	Base Base `json:"base"`
	Mut  Mut  `json:"mut"`
}

func countFDsUnder(dir string) int {
	ents, err := os.ReadDir("/proc/self/fd")
	if err != nil {
		return -1
	}
	n := 0
	for _, e := range ents {
		t, err := os.Readlink(filepath.Join("/proc/self/fd", e.Name()))
		if err == nil && len(t) >= len(dir) && t[:len(dir)] == dir {
			n++
		}
	}
	return n
}

func runLock(c LockCase) (res common.Result) {
	// build on SimFS, then materialise on a real directory with a real bolt DB by replaying the workload
	dir, err := os.MkdirTemp("", "verif-lock-")
	if err != nil {
		res.Fail = common.Failf("harness", "%v", err)
		return
	}
	defer os.RemoveAll(dir)
	cfg := kit.Cfg{SegSize: c.Base.SegSize, Dir: dir}
	w, err := cfg.Open()
	if err != nil {
		res.Fail = common.Failf("harness", "%v", err)
		return
	}
	idx := uint64(1)
	for i, sz := range c.Base.Sizes {
		if err := w.StoreLogs([]*raft.Log{kit.EntrySpec{DataLen: sz, Seed: uint8(i)}.Make(idx, 0)}); err != nil {
			w.Close()
			res.Fail = common.Failf("harness", "%v", err)
			return
		}
		idx++
		kit.Barrier(w)
	}
	w.Close()
	// damage one segment file so that Open fails
	ents, _ := os.ReadDir(dir)
	var segs []string
	for _, e := range ents {
		if filepath.Ext(e.Name()) == ".wal" {
			segs = append(segs, e.Name())
		}
	}
	if len(segs) < 2 {
		res.Classes = []string{"single-segment-skipped"}
		return
	}
	victim := filepath.Join(dir, segs[c.Mut.File%(len(segs)-1)]) // a sealed one (not the last)
	saved, _ := os.ReadFile(victim)
	stray := ""
	switch c.Mut.Kind {
	case "stray":
		// leave the segments alone; drop a misnamed file with the segment suffix into the directory
		stray = filepath.Join(dir, "not-a-segment.wal")
		os.WriteFile(stray, []byte("garbage"), 0o644)
	case "remove":
		os.Remove(victim)
	case "trunc":
		os.WriteFile(victim, saved[:int(c.Mut.Val)%32], 0o644)
	default:
		b := append([]byte(nil), saved...)
		b[c.Mut.Off%32] ^= 0x55
		os.WriteFile(victim, b, 0o644)
	}
	before := countFDsUnder(dir)
	w2, err := cfg.Open()
	if err == nil {
		w2.Close()
		res.Fail = common.Failf("sealed-damage-not-detected", "real stack: sealed segment %s damaged (%s) yet Open succeeded", filepath.Base(victim), c.Mut.Kind)
		return
	}
	res.NonTrivial = true
	res.Classes = []string{"real-open-failed:" + c.Mut.Kind}
	// nothing may remain locked: a non-blocking exclusive flock on a fresh descriptor must succeed
	f, ferr := os.OpenFile(filepath.Join(dir, "wal-meta.db"), os.O_RDWR, 0)
	if ferr != nil {
		res.Fail = common.Failf("harness", "%v", ferr)
		return
	}
	lerr := syscall.Flock(int(f.Fd()), syscall.LOCK_EX|syscall.LOCK_NB)
	if lerr == nil {
		syscall.Flock(int(f.Fd()), syscall.LOCK_UN)
	}
	f.Close()
	if lerr != nil {
		res.Fail = common.Failf("open-failed-leaks-lock", "Open failed (%v) but wal-meta.db is still locked by this process (flock: %v): a second Open would block", err, lerr)
		return
	}
	if after := countFDsUnder(dir); after != before {
		res.Fail = common.Failf("open-failed-leaks-handles", "Open failed (%v) but left %d descriptors open on files of the directory", err, after-before)
		return
	}
	// repair and open again: must succeed
	os.WriteFile(victim, saved, 0o644)
	if stray != "" {
		os.Remove(stray)
	}
	w3, err := cfg.Open()
	if err != nil {
		res.Fail = common.Failf("reopen-after-repair-failed", "Open after repairing the file = %v", err)
		return
	}
	w3.Close()
	return
}

func TestC11Lock(t *testing.T) {
	common.Run(t, "C11", "C11Lock", func(t *rapid.T) LockCase {
		c := LockCase{Base: Base{SegSize: rapid.SampledFrom([]int{128, 256}).Draw(t, "seg")}}
		for i := 0; i < rapid.IntRange(4, 9).Draw(t, "n"); i++ {
			c.Base.Sizes = append(c.Base.Sizes, rapid.SampledFrom([]int{20, 60, 100}).Draw(t, "sz"))
		}
		c.Mut = Mut{File: rapid.IntRange(0, 6).Draw(t, "file"), Kind: rapid.SampledFrom([]string{"remove", "trunc", "hdr", "stray"}).Draw(t, "kind"), Off: rapid.IntRange(0, 31).Draw(t, "off"), Val: rapid.Uint32().Draw(t, "val")}
		return c
	}, runLock)
}

var _ = simfs.New

// ---- real stack: a damaged metadata record in the bolt file. Open must return (no hang) and leave nothing locked.

type MetaRealCase struct {
	Sizes []int `json:"sizes"`
	Mut   Mut   `json:"mut"`
}

func runMetaReal(c MetaRealCase) (res common.Result) {
	dir, err := os.MkdirTemp("", "verif-metareal-")
	if err != nil {
		res.Fail = common.Failf("harness", "%v", err)
		return
	}
	defer os.RemoveAll(dir)
	cfg := kit.Cfg{SegSize: 256, Dir: dir}
	w, err := cfg.Open()
	if err != nil {
		res.Fail = common.Failf("harness", "%v", err)
		return
	}
	for i, sz := range c.Sizes {
		if err := w.StoreLogs([]*raft.Log{kit.EntrySpec{DataLen: sz, Seed: uint8(i)}.Make(uint64(i+1), 0)}); err != nil {
			w.Close()
			res.Fail = common.Failf("harness", "%v", err)
			return
		}
		kit.Barrier(w)
	}
	w.Close()
	// damage the record with bbolt directly
	dbPath := filepath.Join(dir, "wal-meta.db")
	db, err := bbolt.Open(dbPath, 0o600, nil)
	if err != nil {
		res.Fail = common.Failf("harness", "%v", err)
		return
	}
	effective := false
	err = db.Update(func(tx *bbolt.Tx) error {
		b := tx.Bucket([]byte("wal-meta"))
		raw := append([]byte(nil), b.Get([]byte("m"))...)
		out, ok := MutateMetaRaw(raw, c.Mut)
		if !ok {
			return nil
		}
		effective = true
		return b.Put([]byte("m"), out)
	})
	db.Close()
	if err != nil {
		res.Fail = common.Failf("harness", "%v", err)
		return
	}
	if !effective {
		res.Classes = []string{"mutation-ineffective"}
		return
	}
	res.NonTrivial = true
	res.Classes = []string{"real-meta:" + c.Mut.Kind}
	before := countFDsUnder(dir)
	type openRes struct {
		w   *wal.WAL
		err error
	}
	open := func() (openRes, bool, string) {
		var r openRes
		doneCh := make(chan struct{})
		go func() {
			w, err := cfg.Open()
			r = openRes{w, err}
			close(doneCh)
		}()
		// parked for good inside Open (e.g. bbolt Close waiting for a leaked transaction)?
		if parked, st := common.WaitParked(doneCh, "raft-wal.Open", 2*time.Second, 5*time.Minute); parked {
			return openRes{}, false, st
		}
		return r, true, ""
	}
	r, returned, dump := open()
	if !returned {
		res.Fail = common.Failf("open-hangs", "wal.Open on a directory whose metadata record was damaged (%s) never returns; it is parked here (same state in two dumps):\n%s", c.Mut.Kind, dump)
		return
	}
	if r.err == nil {
		res.Classes = append(res.Classes, "real-meta-open-ok")
		r.w.Close()
		return
	}
	res.Classes = append(res.Classes, "real-meta-open-error")
	f, ferr := os.OpenFile(dbPath, os.O_RDWR, 0)
	if ferr == nil {
		lerr := syscall.Flock(int(f.Fd()), syscall.LOCK_EX|syscall.LOCK_NB)
		if lerr == nil {
			syscall.Flock(int(f.Fd()), syscall.LOCK_UN)
		}
		f.Close()
		if lerr != nil {
			res.Fail = common.Failf("open-failed-leaks-lock", "Open failed (%v) on a damaged metadata record but wal-meta.db is still locked by this process", r.err)
			return
		}
	}
	if after := countFDsUnder(dir); after != before {
		res.Fail = common.Failf("open-failed-leaks-handles", "Open failed (%v) but left %d descriptors open in the directory", r.err, after-before)
		return
	}
	// a second Open must return as well
	r2, returned, dump := open()
	if !returned {
		res.Fail = common.Failf("open-hangs", "the second Open of the same directory never returns:\n%s", dump)
		return
	}
	if r2.err == nil {
		r2.w.Close()
	}
	return
}

func firstWith(dump, needle string) string {
	for _, g := range strings.Split(dump, "\n\n") {
		if strings.Contains(g, needle) {
			if len(g) > 1500 {
				g = g[:1500]
			}
			return g
		}
	}
	return ""
}

func TestC11MetaReal(t *testing.T) {
	common.Run(t, "C11", "C11MetaReal", func(t *rapid.T) MetaRealCase {
		c := MetaRealCase{}
		for i := 0; i < rapid.IntRange(1, 7).Draw(t, "n"); i++ {
			c.Sizes = append(c.Sizes, rapid.SampledFrom([]int{10, 60, 100}).Draw(t, "sz"))
		}
		c.Mut = genMut(t, true)
		return c
	}, runMetaReal)
}

// ---- C03: a crash during the very first Open can leave a partial wal-meta.db.tmp behind; Open must still succeed.

type MetaInitCase struct {
	Kind string `json:"kind"` // none, empty, zeros, prefix, holes, complete, garbage
	Len  int    `json:"len"`
	Mask uint32 `json:"mask"`
}

func genMetaInit(t *rapid.T) MetaInitCase {
	return MetaInitCase{Kind: rapid.SampledFrom([]string{"empty", "zeros", "prefix", "prefix", "holes", "holes", "complete", "garbage", "nobuckets", "nobuckets"}).Draw(t, "kind"),
		Len: rapid.IntRange(1, 40000).Draw(t, "len"), Mask: rapid.Uint32().Draw(t, "mask")}
}

func TestC03MetaInit(t *testing.T) {
	common.Run(t, "C03", "C03MetaInit", genMetaInit, runMetaInit)
}

// TestC07MetaInit: the same leftovers judged for C07's clause that the metadata database appears under
// its final name only complete - whatever the interrupted initialisation left under the temporary name.
func TestC07MetaInit(t *testing.T) {
	common.Run(t, "C07", "C07MetaInit", genMetaInit, runMetaInit)
}

func runMetaInit(c MetaInitCase) (res common.Result) {
	{
		// a genuine, complete tmp file as bolt writes it
		src, err := os.MkdirTemp("", "verif-metainit-src-")
		if err != nil {
			res.Fail = common.Failf("harness", "%v", err)
			return
		}
		defer os.RemoveAll(src)
		w0, err := kit.Cfg{SegSize: 256, Dir: src}.Open()
		if err != nil {
			res.Fail = common.Failf("harness", "%v", err)
			return
		}
		w0.Close()
		full, err := os.ReadFile(filepath.Join(src, "wal-meta.db"))
		if err != nil {
			res.Fail = common.Failf("harness", "%v", err)
			return
		}
		dir, err := os.MkdirTemp("", "verif-metainit-")
		if err != nil {
			res.Fail = common.Failf("harness", "%v", err)
			return
		}
		defer os.RemoveAll(dir)
		var tmp []byte
		switch c.Kind {
		case "empty":
			tmp = []byte{}
		case "zeros":
			tmp = make([]byte, c.Len)
		case "prefix":
			tmp = append([]byte{}, full[:c.Len%len(full)]...)
		case "holes": // full length, some 4KiB pages never reached the disk
			tmp = append([]byte{}, full...)
			for pg := 0; pg*4096 < len(tmp); pg++ {
				if c.Mask&(1<<uint(pg%32)) != 0 {
					for i := pg * 4096; i < (pg+1)*4096 && i < len(tmp); i++ {
						tmp[i] = 0
					}
				}
			}
		case "complete":
			tmp = full
		case "nobuckets":
			// what bolt itself has fsynced right after creating the file, before the transaction that
			// creates the buckets commits: a valid, empty database
			bp := filepath.Join(src, "empty.db")
			bdb, err := bbolt.Open(bp, 0o600, nil)
			if err != nil {
				res.Fail = common.Failf("harness", "%v", err)
				return
			}
			bdb.Close()
			if tmp, err = os.ReadFile(bp); err != nil {
				res.Fail = common.Failf("harness", "%v", err)
				return
			}
		default:
			tmp = kit.Fill(c.Len, byte(c.Mask), 3, 3)
		}
		if err := os.WriteFile(filepath.Join(dir, "wal-meta.db.tmp"), tmp, 0o644); err != nil {
			res.Fail = common.Failf("harness", "%v", err)
			return
		}
		res.NonTrivial = true
		res.Classes = []string{"meta-init-leftover:" + c.Kind}
		cfg := kit.Cfg{SegSize: 256, Dir: dir}
		var w *wal.WAL
		doneCh := make(chan struct{})
		var oerr error
		go func() { w, oerr = cfg.Open(); close(doneCh) }()
		if parked, st := common.WaitParked(doneCh, "raft-wal.Open", 2*time.Second, 5*time.Minute); parked {
			res.Fail = common.Failf("open-hangs", "Open with a leftover wal-meta.db.tmp (%s, %d bytes) never returns:\n%s", c.Kind, len(tmp), st)
			return
		}
		if oerr != nil {
			res.Fail = common.Failf("open-failed-after-init-crash", "a crash during the first Open left wal-meta.db.tmp (%s, %d bytes) and no wal-meta.db; the next Open = %v", c.Kind, len(tmp), oerr)
			return
		}
		defer func() { w.Close() }()
		// usable: append anywhere, stable write, truncate, reopen
		if err := w.StoreLogs([]*raft.Log{{Index: 500, Data: []byte("a")}, {Index: 501, Data: []byte("b")}}); err != nil {
			res.Fail = common.Failf("append-refused", "StoreLogs on the fresh log = %v", err)
			return
		}
		if err := w.SetUint64([]byte("CurrentTerm"), 3); err != nil {
			res.Fail = common.Failf("set-refused", "%v", err)
			return
		}
		if err := w.DeleteRange(501, 501); err != nil {
			res.Fail = common.Failf("delete-refused", "%v", err)
			return
		}
		w.Close()
		w, oerr = cfg.Open()
		if oerr != nil {
			res.Fail = common.Failf("reopen-err", "%v", oerr)
			return
		}
		f, _ := w.FirstIndex()
		l, _ := w.LastIndex()
		v, _ := w.GetUint64([]byte("CurrentTerm"))
		if f != 500 || l != 500 || v != 3 {
			res.Fail = common.Failf("effects-not-durable", "after reopen first=%d last=%d term=%d, want 500 500 3", f, l, v)
		}
		return
	}
}

// ---- the metadata database cannot even be stat'ed (an I/O error below the MetaStore interface, here
// ELOOP from a self-referencing symlink): Open must fail, not start over with an empty log, and
// must leave the directory as it found it.

type MetaStatCase struct {
	Sizes []int `json:"sizes"`
	Seg   int   `json:"seg"`
}

func TestC11MetaStat(t *testing.T) {
	common.Run(t, "C11", "C11MetaStat", func(t *rapid.T) MetaStatCase {
		c := MetaStatCase{Seg: rapid.SampledFrom([]int{128, 512, 4096}).Draw(t, "seg")}
		for i := 0; i < rapid.IntRange(1, 12).Draw(t, "n"); i++ {
			c.Sizes = append(c.Sizes, rapid.SampledFrom([]int{10, 60, 100}).Draw(t, "sz"))
		}
		return c
	}, func(c MetaStatCase) (res common.Result) {
		dir, err := os.MkdirTemp("", "verif-metastat-")
		if err != nil {
			res.Fail = common.Failf("harness", "%v", err)
			return
		}
		defer os.RemoveAll(dir)
		cfg := kit.Cfg{SegSize: c.Seg, Dir: dir}
		w, err := cfg.Open()
		if err != nil {
			res.Fail = common.Failf("harness", "%v", err)
			return
		}
		m := refmodel.NewLogModel()
		for i, sz := range c.Sizes {
			l := kit.EntrySpec{DataLen: sz, Seed: uint8(i)}.Make(uint64(100+i), 0)
			if err := w.StoreLogs([]*raft.Log{l}); err != nil {
				res.Fail = common.Failf("harness", "%v", err)
				return
			}
			m.Append([]*raft.Log{l})
			kit.Barrier(w)
		}
		w.Close()
		before, _ := filepath.Glob(filepath.Join(dir, "*.wal"))
		db := filepath.Join(dir, "wal-meta.db")
		parked := filepath.Join(dir, "parked-meta")
		if err := os.Rename(db, parked); err != nil {
			res.Fail = common.Failf("harness", "%v", err)
			return
		}
		if err := os.Symlink("wal-meta.db", db); err != nil {
			res.Fail = common.Failf("harness", "%v", err)
			return
		}
		res.NonTrivial = true
		w2, oerr := cfg.Open()
		if oerr == nil {
			f, _ := w2.FirstIndex()
			l, _ := w2.LastIndex()
			w2.Close()
			res.Fail = common.Failf("silent-loss/meta-stat-error", "wal-meta.db cannot be stat'ed (ELOOP) yet Open succeeded and presents the log [%d,%d]; %d entries [%d,%d] had been acknowledged", f, l, m.Len(), m.First, m.Last)
			return
		}
		// put things back: everything must still be there
		os.Remove(db)
		os.Remove(db + ".tmp")
		if err := os.Rename(parked, db); err != nil {
			res.Fail = common.Failf("harness", "%v", err)
			return
		}
		after, _ := filepath.Glob(filepath.Join(dir, "*.wal"))
		if len(after) != len(before) {
			res.Fail = common.Failf("failed-open-deleted-files", "the failed Open (%v) changed the segment files: before %v, after %v", oerr, before, after)
			return
		}
		w3, err := cfg.Open()
		if err != nil {
			res.Fail = common.Failf("reopen-err", "Open after the metadata database became reachable again = %v (the failed Open was: %v)", err, oerr)
			return
		}
		defer w3.Close()
		if sig, msg := kit.CheckAgainst(w3, m, nil); sig != "" {
			res.Fail = common.Failf("loss-after-failed-open/"+sig, "%s", msg)
		}
		return
	})
}
