// Package dmg checks behaviour on damaged files (C11): arbitrary corruption of
// segment files and of the metadata record must yield errors, never panics,
// unbounded loops or allocations, or silently missing sealed segments.
package dmg

import (
	"encoding/binary"
	"encoding/json"
	"fmt"
	"runtime"
	"sort"
	"strings"

	"github.com/hashicorp/raft"
	"github.com/hashicorp/raft-wal/segment"
	"github.com/hashicorp/raft-wal/types"

	"verifharness/common"
	"verifharness/kit"
	"verifharness/simfs"
)

// Base describes how the valid directory is built before it is damaged.
type Base struct {
	SegSize int    `json:"seg"`
	Sizes   []int  `json:"sizes"` // data length of each entry, appended in batches of Batch
	Batch   int    `json:"batch"`
	Start   uint64 `json:"start"`
	HeadDel int    `json:"headDel"` // entries removed from the head afterwards
	TailDel int    `json:"tailDel"` // entries removed from the tail afterwards (then one more append)
}

// Mut is one structured mutation.
type Mut struct {
	File int    `json:"file"` // index into the sorted segment file list; -1 = metadata record
	Kind string `json:"kind"`
	Off  int    `json:"off"` // selector (offset, frame number, ...) resolved modulo the relevant size
	Len  int    `json:"len"`
	Val  uint32 `json:"val"`
	Src  int    `json:"src"`
}

type Case struct {
	Base Base  `json:"base"`
	Muts []Mut `json:"muts"`
}

// build runs the base workload and returns the (quiesced, fully durable) FS.
func build(b Base) (*simfs.FS, error) {
	fs := simfs.New()
	w, err := kit.Cfg{SegSize: b.SegSize, FS: fs}.Open()
	if err != nil {
		return nil, err
	}
	idx := b.Start
	if idx == 0 {
		idx = 1
	}
	first := idx
	batch := b.Batch
	if batch < 1 {
		batch = 1
	}
	for i := 0; i < len(b.Sizes); i += batch {
		var logs []*raft.Log
		for j := i; j < i+batch && j < len(b.Sizes); j++ {
			logs = append(logs, kit.EntrySpec{DataLen: b.Sizes[j], Seed: uint8(j), Term: 2}.Make(idx, 0))
			idx++
		}
		if err := w.StoreLogs(logs); err != nil {
			w.Close()
			return nil, err
		}
		kit.Barrier(w)
	}
	n := int(idx - first)
	if b.HeadDel > 0 && b.HeadDel < n {
		if err := w.DeleteRange(first, first+uint64(b.HeadDel)-1); err != nil {
			w.Close()
			return nil, err
		}
	}
	if b.TailDel > 0 && b.HeadDel+b.TailDel < n {
		if err := w.DeleteRange(idx-uint64(b.TailDel), idx-1); err != nil {
			w.Close()
			return nil, err
		}
		idx -= uint64(b.TailDel)
		if err := w.StoreLogs([]*raft.Log{kit.EntrySpec{DataLen: 21, Seed: 99, Term: 3}.Make(idx, 1)}); err != nil {
			w.Close()
			return nil, err
		}
		kit.Barrier(w)
	}
	w.Close()
	fs.Quiesce()
	return fs, nil
}

// frameOffsets walks a valid file and returns the offsets of its frame headers.
func frameOffsets(b []byte) []int {
	var offs []int
	off := 32
	for off+8 <= len(b) {
		typ := b[off]
		if typ == 0 || typ > 3 {
			break
		}
		offs = append(offs, off)
		if typ == segment.FrameCommit {
			off += 8
			continue
		}
		ln := int(binary.LittleEndian.Uint32(b[off+4:]))
		off += 8 + (ln+7)/8*8
	}
	return offs
}

var hostileLens = []uint32{0, 1, 7, 8, 9, 1<<26 - 1, 1 << 26, 1<<26 + 1, 1 << 31, 1<<32 - 1, 1<<32 - 8, 0x7fffffff, 65536, 65528}

// hostileWord builds an 8-byte frame header from v: type in {0..4, 0xff}, reserved bytes zero
// (mostly) or not, length one of hostileLens.
func hostileWord(v uint32) []byte {
	w := make([]byte, 8)
	w[0] = []byte{0, 1, 2, 3, 4, 0xff, 2, 2}[v%8]
	if (v>>3)%4 == 0 {
		w[1+(v>>5)%3] = byte(v >> 8)
	}
	binary.LittleEndian.PutUint32(w[4:], hostileLens[int(v>>12)%len(hostileLens)])
	return w
}

// damageInfo records facts about the applied mutations needed by the oracle.
type damageInfo struct {
	sealedBroken []string // sealed segment files removed / truncated below the header / given a foreign header
	metaTouched  bool
	effective    int
	kinds        []string
}

// apply mutates fs in place.
func apply(fs *simfs.FS, muts []Mut) damageInfo {
	var di damageInfo
	st, _ := fs.MetaState()
	sealed := map[string]bool{}
	for _, si := range st.Segments {
		if !si.SealTime.IsZero() {
			sealed[segment.FileName(si)] = true
		}
	}
	names := fs.Names()
	sort.Strings(names)
	for _, m := range muts {
		if m.File < 0 {
			if mutateMeta(fs, m) {
				di.metaTouched = true
				di.effective++
				di.kinds = append(di.kinds, "meta-"+m.Kind)
			}
			continue
		}
		if len(names) == 0 {
			continue
		}
		name := names[m.File%len(names)]
		b, ok := fs.ReadFile(name)
		if !ok {
			continue
		}
		orig := append([]byte(nil), b...)
		fo := frameOffsets(b)
		pick := func(n int) int {
			if n <= 0 {
				return 0
			}
			o := m.Off % n
			if o < 0 {
				o = -o
			}
			return o
		}
		switch m.Kind {
		case "flip":
			if len(b) > 0 {
				o := pick(usedLen(b))
				b[o] ^= 1 << (m.Val % 8)
			}
		case "set":
			if len(b) > 0 {
				b[pick(usedLen(b))] = byte(m.Val)
			}
		case "hdrflip": // inside the 32-byte file header
			if len(b) >= 32 {
				b[pick(32)] ^= 1 << (m.Val % 8)
			}
		case "frameflip": // inside a frame header
			if len(fo) > 0 {
				o := fo[pick(len(fo))] + int(m.Val%8)
				b[o] ^= 1 << ((m.Val >> 3) % 8)
			}
		case "lenedit":
			if len(fo) > 0 {
				o := fo[pick(len(fo))]
				binary.LittleEndian.PutUint32(b[o+4:], hostileLens[int(m.Val)%len(hostileLens)])
			}
		case "typeedit":
			if len(fo) > 0 {
				o := fo[pick(len(fo))]
				b[o] = byte(m.Val % 5)
			}
		case "hdrword":
			// a whole frame header replaced by a hostile word: any type byte with any hostile length
			if len(fo) > 0 {
				o := fo[pick(len(fo))]
				copy(b[o:o+8], hostileWord(m.Val))
			}
		case "tailword":
			// hostile words right behind the last frame of the file (where a tail keeps stale bytes)
			if len(fo) > 0 {
				last := fo[len(fo)-1]
				end := last + 8
				if b[last] != segment.FrameCommit {
					ln := int(binary.LittleEndian.Uint32(b[last+4:]))
					end = last + 8 + (ln+7)/8*8
				}
				for k := 0; k < 1+m.Len%3 && end+8 <= len(b); k++ {
					copy(b[end:end+8], hostileWord(m.Val+uint32(k)*7919))
					end += 8
				}
			}
		case "zero":
			o := pick(usedLen(b))
			for i := o; i < o+m.Len && i < len(b); i++ {
				b[i] = 0
			}
		case "trunc":
			n := pick(usedLen(b) + 1)
			if m.Val%4 == 0 {
				n = int(m.Val/4) % 33 // below or at the header
			}
			if n > len(b) {
				n = len(b)
			}
			b = b[:n]
		case "splice":
			src, ok := fs.ReadFile(names[m.Src%len(names)])
			if ok && len(src) > 0 && len(b) > 0 {
				so := int(m.Val) % len(src)
				o := pick(usedLen(b))
				copy(b[o:], src[so:min(len(src), so+m.Len)])
			}
		case "dupframe":
			if len(fo) > 1 {
				i := pick(len(fo) - 1)
				fr := append([]byte(nil), b[fo[i]:fo[i+1]]...)
				b = append(b[:fo[i+1]], append(fr, b[fo[i+1]:]...)...)
			}
		case "indexedit": // edit a u32 inside the index block of a sealed file
			for _, si := range st.Segments {
				if segment.FileName(si) == name && si.IndexStart > 0 && int(si.IndexStart)+4 <= len(b) {
					n := int(si.MaxIndex-si.BaseIndex) + 1
					o := int(si.IndexStart) + 4*pick(n)
					if o+4 <= len(b) {
						binary.LittleEndian.PutUint32(b[o:], hostileLens[int(m.Val)%len(hostileLens)])
					}
				}
			}
		case "hdrswap":
			src, ok := fs.ReadFile(names[m.Src%len(names)])
			if ok && len(src) >= 32 && len(b) >= 32 && names[m.Src%len(names)] != name {
				copy(b[:32], src[:32])
			}
		case "garbage":
			g := kit.Fill(len(b), byte(m.Val), uint64(m.Off), 7)
			b = g
		case "strayfile":
			// an extra file with the segment suffix whose name is not a segment name
			stray := []string{"not-a-segment.wal", "0000000000000000000x-0000000000000000.wal", ".wal", "00000000000000000001.wal"}[int(m.Val)%4]
			fs.WriteFile(stray, kit.Fill(int(m.Len), byte(m.Val), 1, 2))
			di.effective++
			di.kinds = append(di.kinds, "strayfile")
			continue
		case "remove":
			fs.RemoveFile(name)
			di.effective++
			di.kinds = append(di.kinds, "remove")
			if sealed[name] {
				di.sealedBroken = append(di.sealedBroken, name)
			}
			continue
		}
		if string(orig) == string(b) {
			continue
		}
		di.effective++
		di.kinds = append(di.kinds, m.Kind)
		fs.WriteFile(name, b)
		if sealed[name] {
			switch {
			case len(b) < 32:
				di.sealedBroken = append(di.sealedBroken, name)
			case m.Kind == "hdrswap":
				di.sealedBroken = append(di.sealedBroken, name)
			}
		}
	}
	return di
}

func usedLen(b []byte) int {
	n := len(b)
	for n > 0 && b[n-1] == 0 {
		n--
	}
	n += 16
	if n > len(b) {
		n = len(b)
	}
	return n
}

// mutateMeta edits the JSON metadata record structurally or textually.
func mutateMeta(fs *simfs.FS, m Mut) bool {
	out, ok := MutateMetaRaw(fs.MetaRaw(), m)
	if ok {
		fs.SetMetaRaw(out)
	}
	return ok
}

// MutateMetaRaw applies a metadata mutation to the raw JSON record.
func MutateMetaRaw(raw []byte, m Mut) ([]byte, bool) {
	if len(raw) == 0 {
		return nil, false
	}
	var st types.PersistentState
	if json.Unmarshal(raw, &st) != nil {
		return nil, false
	}
	n := len(st.Segments)
	pick := func() int {
		if n == 0 {
			return 0
		}
		o := m.Off % n
		if o < 0 {
			o = -o
		}
		return o
	}
	structural := true
	switch m.Kind {
	case "dupbase":
		if n > 1 {
			st.Segments[pick()].BaseIndex = st.Segments[(pick()+1)%n].BaseIndex
		}
	case "unsealmid":
		if n > 1 {
			st.Segments[pick()%(n-1)].SealTime = st.Segments[n-1].SealTime
		}
	case "sealtail":
		if n > 0 {
			st.Segments[n-1].SealTime = st.Segments[n-1].CreateTime
			st.Segments[n-1].IndexStart = uint64(m.Val)
		}
	case "zerobase":
		if n > 0 {
			st.Segments[pick()].BaseIndex = 0
		}
	case "indexstart":
		if n > 0 {
			st.Segments[pick()].IndexStart = uint64(hostileLens[int(m.Val)%len(hostileLens)])
		}
	case "minmax":
		if n > 0 {
			s := &st.Segments[pick()]
			s.MinIndex, s.MaxIndex = s.MaxIndex+uint64(m.Val%3), s.MinIndex
		}
	case "maxhuge":
		if n > 0 {
			st.Segments[pick()].MaxIndex = 1 << 62
		}
	case "sizelimit":
		if n > 0 {
			st.Segments[pick()].SizeLimit = hostileLens[int(m.Val)%len(hostileLens)]
		}
	case "swap":
		if n > 1 {
			i := pick()
			st.Segments[i], st.Segments[(i+1)%n] = st.Segments[(i+1)%n], st.Segments[i]
		}
	case "drop":
		if n > 0 {
			i := pick()
			st.Segments = append(st.Segments[:i], st.Segments[i+1:]...)
		}
	case "nextid":
		st.NextSegmentID = uint64(m.Val % 4)
	case "codec":
		if n > 0 {
			st.Segments[pick()].Codec = uint64(m.Val)
		}
	case "idedit":
		if n > 0 {
			st.Segments[pick()].ID += uint64(1 + m.Val%3)
		}
	case "empty":
		st.Segments = nil
	default:
		structural = false
	}
	var out []byte
	if structural {
		out, _ = json.Marshal(st)
	} else {
		out = append([]byte(nil), raw...)
		o := m.Off % len(out)
		if o < 0 {
			o = -o
		}
		switch m.Kind {
		case "textflip":
			out[o] ^= 1 << (m.Val % 8)
		case "texttrunc":
			out = out[:o]
		case "textset":
			out[o] = byte(m.Val)
		case "textgarbage":
			out = kit.Fill(len(out), byte(m.Val), 1, 1)
		default:
			return nil, false
		}
	}
	if string(out) == string(raw) {
		return nil, false
	}
	return out, true
}

// allocOf runs fn and returns the bytes allocated meanwhile (single goroutine).
func allocOf(fn func()) uint64 {
	var a, b runtime.MemStats
	runtime.ReadMemStats(&a)
	fn()
	runtime.ReadMemStats(&b)
	return b.TotalAlloc - a.TotalAlloc
}

func dirBytes(fs *simfs.FS) int {
	n := len(fs.MetaRaw())
	for _, name := range fs.Names() {
		b, _ := fs.ReadFile(name)
		n += len(b)
	}
	return n
}

// guard runs fn converting panics into failures, with the read-budget marker recognised.
func guard(what string, fn func()) (f *common.Failure) {
	defer func() {
		if p := recover(); p != nil {
			msg := fmt.Sprint(p)
			if strings.HasPrefix(msg, "SIMFS-READ-BUDGET") {
				f = common.Failf("unbounded-reads/"+what, "%s: %s", what, msg)
				return
			}
			buf := make([]byte, 6000)
			buf = buf[:runtime.Stack(buf, false)]
			f = common.Failf("panic/"+what, "%s panicked: %v\n%s", what, p, buf)
		}
	}()
	fn()
	return nil
}
