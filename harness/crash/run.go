package crash

import (
	"fmt"
	"os"

	"github.com/hashicorp/raft"

	"verifharness/common"
	"verifharness/simfs"
)

func (t *tracker) clone() *tracker {
	c := &tracker{m: t.m.Clone(), stable: map[string][]byte{}, gen: t.gen, submitted: map[uint64][]*subEntry{},
		ackedAppends: t.ackedAppends, hadTrunc: t.hadTrunc, everHostile: t.everHostile}
	for k, v := range t.stable {
		c.stable[k] = v
	}
	for k, v := range t.submitted {
		for _, se := range v {
			cp := *se
			c.submitted[k] = append(c.submitted[k], &cp)
		}
	}
	if t.infl != nil {
		i := *t.infl
		c.infl = &i
	}
	return c
}

// runPhase opens the WAL on e.fs (recovery), judges it, runs ops, closes.
// Returns true if the FS crashed during the phase.
func runPhase(e *runEnv, t *tracker, ops []COp, v *verdicts, where string, cls map[string]bool) bool {
	err := e.open()
	if err != nil {
		if e.fs.Crashed() {
			cls["crash-in-open"] = true
			return true
		}
		v.add("C03", "open-failed", "%s: Open = %v (acknowledged model [%d,%d])", where, err, t.m.First, t.m.Last)
		if !t.m.Empty() {
			v.add("C01", "open-failed", "%s: Open = %v with acknowledged entries [%d,%d]", where, err, t.m.First, t.m.Last)
		}
		return false
	}
	defer e.closeWAL()
	dbg("%s: opened | %s", where, dumpState(e.fs))
	if e.fs.Crashed() {
		cls["crash-in-open"] = true
		return true
	}
	t.judgeRecovery(e.w, e.fs, v, where)
	checkDir(e.fs, v, where)
	if len(v.fails) > 0 {
		return false
	}
	before := len(ops)
	_ = before
	crashed := runOps(e, t, ops, v, where, cls)
	if crashed {
		if t.infl != nil {
			cls["crash-in-"+t.infl.kind] = true
		} else {
			cls["crash-in-background-or-between-ops"] = true
		}
	}
	return crashed
}

// countEvents dry-runs a phase on a clone to learn the number of mutating events and their kinds.
func countEvents(fs *simfs.FS, seg int, t *tracker, ops []COp) (int, []simfs.Event) {
	c := fs.Clone()
	c.RecordTrace = true
	e := &runEnv{seg: seg, fs: c}
	var v verdicts
	runPhase(e, t.clone(), ops, &v, "dry", map[string]bool{})
	var evs []simfs.Event
	for _, ev := range c.Trace {
		if ev.Kind.Mutating() {
			evs = append(evs, ev)
		}
	}
	return c.Seq(), evs
}

func prop() string {
	p := os.Getenv("VERIF_PROP")
	if p == "" {
		p = "C01"
	}
	return p
}

// pickKs chooses crash points for the final phase.
func pickKs(n int, evs []simfs.Event, sample []int, all bool) []int {
	if all || n <= 24 {
		ks := make([]int, 0, n+1)
		for k := 0; k <= n; k++ {
			ks = append(ks, k)
		}
		return ks
	}
	set := map[int]bool{0: true, n: true}
	for i, ev := range evs {
		switch ev.Kind {
		case simfs.KCommitState, simfs.KCreate, simfs.KUnlink:
			set[i] = true   // just before it
			set[i+1] = true // just after it
		case simfs.KWriteAt:
			set[i+1] = true // written but not yet synced: the torn-write window
		}
	}
	for _, s := range sample {
		if len(set) >= 28 {
			break
		}
		set[s%(n+1)] = true
	}
	ks := make([]int, 0, len(set))
	for k := 0; k <= n; k++ {
		if set[k] {
			ks = append(ks, k)
		}
	}
	if len(ks) > 32 {
		// keep a spread
		step := float64(len(ks)) / 32
		var out []int
		for i := 0; i < 32; i++ {
			out = append(out, ks[int(float64(i)*step)])
		}
		ks = out
	}
	return ks
}

// RunCase executes a crash case and reports the verdict for property p.
func RunCase(c Case, p string) (res common.Result) {
	fs := simfs.New()
	t := newTracker()
	cls := map[string]bool{}
	fail := func(v *verdicts, where string) bool {
		if f, ok := v.fails[p]; ok {
			res.Fail = f
			return true
		}
		// A failure of another property ends this case (its own check reports it).
		for op, f := range v.fails {
			cls["ended-by-other-property:"+op+"/"+f.Sig] = true
		}
		return len(v.fails) > 0
	}
	depth := 0
	for pi, ph := range c.Phases {
		n, pevs := countEvents(fs, c.SegSize, t, ph.Ops)
		k := ph.CrashSel % (n + 1)
		if k < 0 {
			k = -k
		}
		if ph.CrashMode == "lastWrite" {
			for i := len(pevs) - 1; i >= 0; i-- {
				if pevs[i].Kind == simfs.KWriteAt {
					k = i + 1
					cls["phase-crash-torn-last-write"] = true
					break
				}
			}
		}
		run := fs.Clone()
		run.SetCrashAfter(k)
		e := &runEnv{seg: c.SegSize, fs: run}
		var v verdicts
		where := fmt.Sprintf("phase %d (crash after event %d/%d)", pi, k, n)
		runPhase(e, t, ph.Ops, &v, where, cls)
		if fail(&v, where) {
			for k := range cls {
				res.Classes = append(res.Classes, k)
			}
			return
		}
		run.CrashNow()
		fs = run.Crash(ph.Tear)
		if ph.Tear.Mode == "kill" {
			cls["phase-ended-by-process-kill"] = true
		}
		t.gen++
		depth++
	}
	if depth >= 1 {
		cls[fmt.Sprintf("nested-depth>=%d", depth+1)] = true
	}
	// final phase: explore crash points x tears
	n, evs := countEvents(fs, c.SegSize, t, c.Final)
	ks := pickKs(n, evs, c.KSample, common.Thorough())
	for _, k := range ks {
		if c.FocusK >= 0 && k != c.FocusK {
			continue
		}
		// run the phase once up to the crash, then fan out over tears
		run := fs.Clone()
		run.SetCrashAfter(k)
		t2 := t.clone()
		e := &runEnv{seg: c.SegSize, fs: run}
		var v verdicts
		vcls := map[string]bool{}
		where := fmt.Sprintf("final phase (crash after event %d/%d)", k, n)
		runPhase(e, t2, c.Final, &v, where, vcls)
		for x := range vcls {
			cls[x] = true
		}
		if fail(&v, where) {
			break
		}
		run.CrashNow()
		pend := run.Pending()
		volatile := len(pend.Files) > 0 || len(pend.DirOps) > 0
		if k > 0 && k < len(evs)+1 {
			cls["crash-after-"+string(evs[k-1].Kind)] = true
		}
		stop := false
		for ti, tear := range c.Tears {
			if c.FocusTear >= 0 && ti != c.FocusTear {
				continue
			}
			if !volatile && ti > 0 {
				break // nothing un-synced: every tear yields the same image
			}
			img := run.Crash(tear)
			if tear.Mode == "kill" {
				cls["process-kill-then-usability-then-power-loss"] = true
			}
			t3 := t2.clone()
			t3.gen++
			e3 := &runEnv{seg: c.SegSize, fs: img}
			var v3 verdicts
			where3 := fmt.Sprintf("recovery after final-phase crash k=%d/%d tear#%d %+v", k, n, ti, tear)
			res.Sub++
			// check phase: Open + judge + directory + usability script
			dbg("%s: image | %s\n%s", where3, dumpState(img), describeFiles(img))
			if err := e3.open(); err != nil {
				v3.add("C03", "open-failed", "%s: Open = %v (acknowledged model [%d,%d])", where3, err, t3.m.First, t3.m.Last)
				if !t3.m.Empty() {
					v3.add("C01", "open-failed", "%s: Open = %v with acknowledged entries [%d,%d]", where3, err, t3.m.First, t3.m.Last)
				}
			} else {
				matched := t3.judgeRecovery(e3.w, e3.fs, &v3, where3)
				checkDir(e3.fs, &v3, where3)
				if matched {
					// directory/format verdicts of other properties do not invalidate the model:
					// the usability script still runs and contributes its own verdicts
					var vu verdicts
					usability(e3, t3, &vu, where3)
					for prop, f := range vu.fails {
						if _, ok := v3.fails[prop]; !ok {
							if v3.fails == nil {
								v3.fails = map[string]*common.Failure{}
							}
							v3.fails[prop] = f
						}
					}
				} else {
					// the recovered contents are already wrong (other properties' verdicts); C03 still asks
					// whether the WAL at least accepts an append at its own LastIndex+1
					if last, err := e3.w.LastIndex(); err == nil {
						if err := e3.w.StoreLogs([]*raft.Log{{Index: last + 1, Data: []byte("probe")}}); err != nil {
							v3.add("C03", "append-refused-after-recovery", "%s: the recovered WAL reports LastIndex=%d but StoreLogs(%d) = %v", where3, last, last+1, err)
						}
					}
				}
				e3.closeWAL()
			}
			if volatile && t2.ackedAppends > 0 {
				res.SubNT = append(res.SubNT, common.Hash([]any{c, k, ti}))
			}
			if fail(&v3, where3) {
				stop = true
				break
			}
		}
		if stop {
			break
		}
	}
	for k := range cls {
		res.Classes = append(res.Classes, k)
	}
	if res.Sub == 0 {
		res.Sub = 1
	}
	return
}
