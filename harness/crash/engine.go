// Package crash is the crash-point exploration engine (E3) serving C01, C02,
// C03, C04 and C13: generated workloads on the composed WAL (real segment code
// on SimFS + SimMeta) are crashed after every mutating I/O event, for several
// torn-write subsets, including inside Open and nested.
package crash

import (
	"errors"
	"fmt"
	"sort"
	"strings"

	"github.com/hashicorp/raft"
	wal "github.com/hashicorp/raft-wal"
	"github.com/hashicorp/raft-wal/segment"

	"verifharness/common"
	"verifharness/kit"
	"verifharness/refmodel"
	"verifharness/simfs"
)

// Pos as in package seq (duplicated to keep cases self-contained).
type Pos struct {
	Rel string `json:"rel"`
	Off int64  `json:"off"`
}

func (p *Pos) Resolve(m *refmodel.LogModel) uint64 {
	if p == nil {
		return 0
	}
	add := func(base uint64, off int64) uint64 {
		if off < 0 {
			if uint64(-off) > base {
				return 0
			}
			return base - uint64(-off)
		}
		return base + uint64(off)
	}
	switch p.Rel {
	case "zero":
		return add(0, p.Off)
	case "first":
		return add(m.First, p.Off)
	case "last":
		return add(m.Last, p.Off)
	case "mid":
		n := m.Len()
		if n == 0 {
			return add(1, p.Off)
		}
		o := p.Off
		if o < 0 {
			o = -o
		}
		return m.First + uint64(o)%n
	}
	return 0
}

// ESpec describes an entry; Hostile selects the frame-look-alike payload alphabet.
type ESpec struct {
	DataLen int    `json:"dl"`
	Seed    uint8  `json:"s,omitempty"`
	Hostile []byte `json:"h,omitempty"` // word selectors, one per 8-byte word
}

type COp struct {
	K       string  `json:"k"` // append, del, set, reopen
	Entries []ESpec `json:"e,omitempty"`
	Start   uint64  `json:"start,omitempty"`
	Min     *Pos    `json:"min,omitempty"`
	Max     *Pos    `json:"max,omitempty"`
	Key     string  `json:"key,omitempty"`
	Val     []byte  `json:"val,omitempty"`
}

func (o COp) String() string {
	switch o.K {
	case "append":
		return fmt.Sprintf("append(n=%d)", len(o.Entries))
	case "del":
		return fmt.Sprintf("del(%v,%v)", *o.Min, *o.Max)
	}
	return o.K
}

// Phase is a workload followed by a crash. CrashSel selects the crash point
// among the phase's mutating events (resolved modulo N+1 after a dry run).
type Phase struct {
	Ops      []COp `json:"ops"`
	CrashSel int   `json:"crashSel"`
	// CrashMode "lastWrite" crashes right after the phase's last WriteAt (before
	// its Sync), i.e. with the last append torn in flight; "" uses CrashSel.
	CrashMode string     `json:"crashMode,omitempty"`
	Tear      simfs.Tear `json:"tear"`
}

type Case struct {
	SegSize int     `json:"seg"`
	Phases  []Phase `json:"phases"`
	// Final phase exploration: workload whose every sampled crash point x tear is tried.
	Final   []COp        `json:"final"`
	Tears   []simfs.Tear `json:"tears"`
	KSample []int        `json:"ksample"` // extra crash selectors for the quick tier
	// Focus is set in shrunk replays: only this (k, tear index) of the final phase (-1 = all).
	FocusK    int `json:"focusK"`
	FocusTear int `json:"focusTear"`
}

// ---------------------------------------------------------------- oracle state

type inflight struct {
	kind string // append, del, set
	logs []*raft.Log
	min  uint64
	max  uint64
	key  string
	val  []byte
}

// tracker is the harness's knowledge: acknowledged model + the op in flight.
type tracker struct {
	m      *refmodel.LogModel
	stable map[string][]byte
	infl   *inflight
	gen    uint8
	// everything ever submitted per index (for classifying fabricated content)
	submitted map[uint64][]*subEntry
	// raw encoded frames of unacknowledged batches per file-agnostic list (for F-STALE classification)
	unackedPayloads [][]byte
	ackedAppends    int
	hadTrunc        bool
	everHostile     bool
}

type subEntry struct {
	log   *raft.Log
	acked bool
}

func newTracker() *tracker {
	return &tracker{m: refmodel.NewLogModel(), stable: map[string][]byte{}, submitted: map[uint64][]*subEntry{}}
}

func (t *tracker) submit(logs []*raft.Log) {
	for _, l := range logs {
		t.submitted[l.Index] = append(t.submitted[l.Index], &subEntry{log: refmodel.CloneLog(l)})
	}
}

// ack marks the most recent submission of each index as acknowledged.
func (t *tracker) ack(logs []*raft.Log) {
	for _, l := range logs {
		if s := t.submitted[l.Index]; len(s) > 0 {
			s[len(s)-1].acked = true
		}
	}
}

// ---------------------------------------------------------------- payloads

// hostileWord returns an 8-byte word chosen by sel.
func hostileWord(sel byte, idx uint64, i int) []byte {
	w := make([]byte, 8)
	switch sel % 10 {
	case 0: // zeros
	case 1: // entry frame header with len 0
		w[0] = segment.FrameEntry
	case 2: // entry frame header with len 8
		w[0] = segment.FrameEntry
		w[4] = 8
	case 3: // commit header with arbitrary crc
		w[0] = segment.FrameCommit
		w[4], w[5], w[6], w[7] = byte(idx), byte(i), 0x5a, sel
	case 4: // index frame header len 8
		w[0] = segment.FrameIndex
		w[4] = 8
	case 6: // entry frame header claiming 4 GiB-1
		w[0] = segment.FrameEntry
		w[4], w[5], w[6], w[7] = 0xff, 0xff, 0xff, 0xff
	case 7: // index frame header claiming just under 4 GiB
		w[0] = segment.FrameIndex
		w[4], w[5], w[6], w[7] = 0xf8, 0xff, 0xff, 0xff
	case 9: // commit frame header whose CRC field is zero: "commits" nothing if it follows a commit
		w[0] = segment.FrameCommit
	case 8: // entry frame header claiming MaxEntrySize+8
		w[0] = segment.FrameEntry
		w[4], w[7] = 8, 0x04
	default:
		copy(w, kit.Fill(8, sel, idx, byte(i)))
	}
	return w
}

// mkLog builds the entry. Hostile payloads are aligned so that their words
// fall on 8-byte file boundaries: the frame payload starts 8-aligned and the
// codec prefix (uvarint index, term, type, data length) precedes Data.
func (e ESpec) mkLog(idx uint64, gen uint8) *raft.Log {
	l := &raft.Log{Index: idx, Term: uint64(gen) + 1, Type: raft.LogCommand}
	if len(e.Hostile) == 0 {
		if e.DataLen > 0 {
			l.Data = kit.Fill(e.DataLen, e.Seed+gen*17, idx, 3)
		}
		return l
	}
	words := len(e.Hostile)
	// find pad such that prefixLen+pad is a multiple of 8
	for pad := 0; pad < 16; pad++ {
		n := pad + 8*words
		l.Data = make([]byte, n)
		prefix := refmodel.EncodedLen(&raft.Log{Index: idx, Term: l.Term, Type: l.Type, Data: l.Data}) - n - encTimeLen
		if (prefix+pad)%8 == 0 {
			for i := 0; i < pad; i++ {
				l.Data[i] = 0xA0 + byte(i)
			}
			for i, sel := range e.Hostile {
				copy(l.Data[pad+8*i:], hostileWord(sel, idx+uint64(gen), i))
			}
			return l
		}
	}
	return l
}

// encTimeLen is the encoded length of the zero time plus the extensions length byte.
var encTimeLen = func() int {
	l := &raft.Log{}
	return refmodel.EncodedLen(l) - 4 // index, term, type, datalen bytes = 4; rest = ext len + time
}()

// ---------------------------------------------------------------- execution

type runEnv struct {
	seg int
	fs  *simfs.FS
	w   *wal.WAL
}

func (e *runEnv) open() error {
	w, err := kit.Cfg{SegSize: e.seg, FS: e.fs}.Open()
	if err != nil {
		return err
	}
	e.w = w
	return nil
}

func (e *runEnv) closeWAL() {
	if e.w != nil {
		e.w.Close()
		e.w = nil
	}
}

// verdicts of one recovery, per property.
type verdicts struct {
	fails map[string]*common.Failure // property -> failure
}

func (v *verdicts) add(prop, sig, format string, a ...any) {
	if v.fails == nil {
		v.fails = map[string]*common.Failure{}
	}
	if _, ok := v.fails[prop]; !ok {
		v.fails[prop] = common.Failf(sig, format, a...)
	}
}

// candidates returns the allowed post-crash models, most-applied first.
func (t *tracker) candidates() []*refmodel.LogModel {
	if t.infl == nil {
		return []*refmodel.LogModel{t.m}
	}
	switch t.infl.kind {
	case "append":
		c := t.m.Clone()
		c.Append(t.infl.logs)
		return []*refmodel.LogModel{c, t.m}
	case "del":
		c := t.m.Clone()
		c.Delete(t.infl.min, t.infl.max)
		return []*refmodel.LogModel{c, t.m}
	}
	return []*refmodel.LogModel{t.m}
}

// judgeRecovery compares the recovered WAL with the allowed set and fills the
// per-property verdicts. On success it commits the tracker to the matching
// candidate and clears the in-flight op.
func (t *tracker) judgeRecovery(w *wal.WAL, fs *simfs.FS, v *verdicts, where string) bool {
	cands := t.candidates()
	var firstSig, firstMsg string
	for i, c := range cands {
		sig, msg := kit.CheckAgainst(w, c, nil)
		if sig == "" {
			if t.infl != nil && t.infl.kind == "append" && i == 0 {
				// the in-flight batch survived in full: from now on it is part of the log
				t.ack(t.infl.logs)
			}
			t.m = c
			t.resolveStable(w, v, where)
			t.infl = nil
			return true
		}
		if i == len(cands)-1 || firstSig == "" {
			if firstSig == "" || i == len(cands)-1 {
				firstSig, firstMsg = sig, msg
			}
		}
	}
	// No candidate matches: work out which properties are violated.
	f, _ := w.FirstIndex()
	l, _ := w.LastIndex()
	desc := fmt.Sprintf("%s: recovered [%d,%d]; acknowledged model [%d,%d]", where, f, l, t.m.First, t.m.Last)
	if t.infl != nil {
		switch t.infl.kind {
		case "append":
			desc += fmt.Sprintf("; in-flight append %d..%d", t.infl.logs[0].Index, t.infl.logs[len(t.infl.logs)-1].Index)
		case "del":
			desc += fmt.Sprintf("; in-flight DeleteRange(%d,%d)", t.infl.min, t.infl.max)
		}
	}
	desc += "; " + firstMsg

	// C01: every acknowledged entry not covered by an (acked or in-flight) delete must be there.
	keep := t.m
	if t.infl != nil && t.infl.kind == "del" {
		keep = cands[0] // entries surviving even if the in-flight delete applied
	}
	lost := false
	if !keep.Empty() {
		for i := keep.First; i <= keep.Last; i++ {
			want, _ := keep.Get(i)
			var got raft.Log
			err := w.GetLog(i, &got)
			if err != nil || refmodel.Diff(want, &got) != "" || i < f || i > l {
				v.add("C01", "ack-lost", "%s; acknowledged entry %d is missing or altered after recovery (GetLog err=%v)", desc, i, err)
				if t.hadTrunc {
					// entries that a truncation kept did not survive it
					v.add("C04", "kept-entries-lost-after-truncation", "%s; entry %d, kept by the acknowledged truncation(s), is missing or altered after recovery (GetLog err=%v)", desc, i, err)
				}
				lost = true
				break
			}
		}
	}
	// C04: truncation atomicity/durability
	if t.hadTrunc || (t.infl != nil && t.infl.kind == "del") {
		okBounds := false
		for _, c := range cands {
			if c.First == f && c.Last == l {
				okBounds = true
			}
		}
		if !okBounds {
			v.add("C04", "trunc-bounds", "%s; bounds match neither the state before nor after the truncation", desc)
		} else if !lost {
			// bounds fine; content at reused indexes must be the newest generation
			for i := f; i <= l && l > 0; i++ {
				var got raft.Log
				if w.GetLog(i, &got) != nil {
					continue
				}
				subs := t.submitted[i]
				if len(subs) > 1 {
					newest := subs[len(subs)-1].log
					for _, o := range subs[:len(subs)-1] {
						old := o.log
						if o.acked && refmodel.Diff(old, &got) == "" && refmodel.Diff(newest, &got) != "" {
							v.add("C04", "old-generation-resurrected", "%s; index %d holds an older generation that a tail truncation had removed", desc, i)
						}
					}
				}
			}
		}
	}
	// C02: nothing fabricated / half applied / non contiguous
	sig02 := "not-in-allowed-set"
	if l > 0 {
		maxSub := uint64(0)
		for i := range t.submitted {
			if i > maxSub {
				maxSub = i
			}
		}
		best := cands[0] // the most-applied candidate
		stale, other := 0, 0
		for i := f; i <= l; i++ {
			var got raft.Log
			err := w.GetLog(i, &got)
			if err != nil {
				sig02 = "unreadable-in-range"
				other++
				break
			}
			if want, ok := best.Get(i); ok && refmodel.Diff(want, &got) == "" {
				continue
			}
			if want, ok := t.m.Get(i); ok && refmodel.Diff(want, &got) == "" {
				continue
			}
			matchUnacked, matchAny := false, false
			for _, s := range t.submitted[i] {
				if refmodel.Diff(s.log, &got) == "" {
					matchAny = true
					if !s.acked {
						matchUnacked = true
					}
				}
			}
			switch {
			case matchUnacked:
				stale++
			case matchAny:
				other++
				sig02 = "older-acked-generation-returned"
			default:
				other++
				sig02 = "fabricated-content"
			}
		}
		if l > maxSub {
			sig02 = "fabricated-index"
			other++
		}
		if other == 0 && stale > 0 && !lost {
			// Known finding F-STALE: every deviating entry is byte-for-byte an entry of an
			// earlier in-flight batch that was torn by a crash and never acknowledged
			// (its bytes were left in the preallocated file and completed by a later torn write).
			sig02 = "F-STALE/resurrected-unacked-batch"
		}
	}
	if t.infl != nil && t.infl.kind == "append" && !lost && !strings.HasPrefix(sig02, "F-STALE") {
		n := uint64(len(t.infl.logs))
		if l > t.m.Last && l < t.m.Last+n {
			sig02 = "half-applied-batch"
		}
	}
	v.add("C02", sig02, "%s", desc)
	return false
}

// staleEvidence reports whether the tail segment file holds, beyond the commit
// of the last acknowledged batch, a commit-header word of the hostile payload
// alphabet, i.e. bytes of an earlier torn (never acknowledged) batch that were
// never wiped. This is the classifier of known finding F-STALE.
func staleEvidence(fs *simfs.FS, t *tracker) bool {
	st, ok := fs.MetaState()
	if !ok || len(st.Segments) == 0 {
		return false
	}
	for si := len(st.Segments) - 1; si >= 0 && si >= len(st.Segments)-2; si-- {
		seg := st.Segments[si]
		b, ok := fs.ReadFile(segment.FileName(seg))
		if !ok {
			continue
		}
		nAck := 0
		if !t.m.Empty() && t.m.Last >= seg.BaseIndex {
			nAck = int(t.m.Last - seg.BaseIndex + 1)
		}
		// walk frames to the commit that ends the nAck-th entry
		off, entries, ackedEnd := 32, 0, 32
		if nAck == 0 {
			ackedEnd = 0
		}
		for off+8 <= len(b) {
			typ := b[off]
			ln := int(b[off+4]) | int(b[off+5])<<8 | int(b[off+6])<<16 | int(b[off+7])<<24
			if typ == segment.FrameCommit {
				if entries >= nAck {
					ackedEnd = off + 8
					break
				}
				off += 8
				continue
			}
			if typ != segment.FrameEntry && typ != segment.FrameIndex {
				break
			}
			if typ == segment.FrameEntry {
				entries++
			}
			off += 8 + (ln+7)/8*8
		}
		for o := (ackedEnd + 7) / 8 * 8; o+8 <= len(b); o += 8 {
			if b[o] == segment.FrameCommit && b[o+1] == 0 && b[o+2] == 0 && b[o+3] == 0 && b[o+6] == 0x5a {
				return true
			}
		}
	}
	return false
}

func (t *tracker) resolveStable(w *wal.WAL, v *verdicts, where string) {
	keys := make([]string, 0, len(t.stable)+1)
	for k := range t.stable {
		keys = append(keys, k)
	}
	if t.infl != nil && t.infl.kind == "set" {
		keys = append(keys, t.infl.key)
	}
	sort.Strings(keys)
	for _, k := range keys {
		got, err := w.Get([]byte(k))
		if err != nil {
			v.add("C03", "stable-get-err", "%s: Get(%q) = %v", where, k, err)
			continue
		}
		want := t.stable[k]
		if string(got) == string(want) {
			continue
		}
		if t.infl != nil && t.infl.kind == "set" && t.infl.key == k && string(got) == string(t.infl.val) {
			t.stable[k] = t.infl.val
			continue
		}
		v.add("C01", "stable-lost", "%s: stable key %q = %x, acknowledged %x", where, k, got, want)
	}
}

// checkTailFormat is C09 for the unsealed tail of a recovered (and possibly written-to) directory:
// walking the file from its header with the README decoder, every CRC checked, must yield at least
// the entries the WAL itself reports for that segment - stale bytes may follow the last commit, but
// none may sit inside the committed data.
func checkTailFormat(fs *simfs.FS, last uint64, v *verdicts, where string) {
	st, ok := fs.MetaState()
	if !ok || len(st.Segments) == 0 {
		return
	}
	si := st.Segments[len(st.Segments)-1]
	if !si.SealTime.IsZero() || last < si.BaseIndex || last == 0 {
		return
	}
	b, has := fs.ReadFile(segment.FileName(si))
	if !has {
		return
	}
	_, groups, committed, derr := refmodel.DecodeSegment(b)
	n := 0
	for _, g := range groups {
		n += len(g.Entries)
	}
	if need := int(last-si.BaseIndex) + 1; n < need {
		v.add("C09", "tail-not-decodable", "%s: the tail %s holds entries %d..%d according to the WAL (%d entries) but a decoder following the README recovers only %d up to offset %d and then stops: %v", where, segment.FileName(si), si.BaseIndex, last, need, n, committed, derr)
	}
}

// checkDir is the C13 verdict: directory == files of committed segments; no reused names.
func checkDir(fs *simfs.FS, v *verdicts, where string) {
	st, ok := fs.MetaState()
	want := map[string]bool{}
	if ok {
		for _, si := range st.Segments {
			want[segment.FileName(si)] = true
		}
	}
	have := map[string]bool{}
	for _, n := range fs.Names() {
		have[n] = true
	}
	var extra, missing []string
	for n := range have {
		if !want[n] {
			extra = append(extra, n)
		}
	}
	for n := range want {
		if !have[n] {
			missing = append(missing, n)
		}
	}
	sort.Strings(extra)
	sort.Strings(missing)
	if len(extra) > 0 {
		v.add("C13", "orphan-files", "%s: files not referenced by metadata remain after Open: %v", where, extra)
	}
	if len(missing) > 0 {
		v.add("C13", "missing-files", "%s: metadata lists segments whose files are absent after Open: %v", where, missing)
	}
	if len(fs.CreateDup) > 0 {
		v.add("C13", "create-collision", "%s: Create called on an existing file name: %v", where, fs.CreateDup)
	}
	// C09 (format across crash histories): a sealed segment's metadata IndexStart is the offset of the
	// payload of the index frame that its final committed batch carries, and MaxIndex does not exceed what the file holds
	if ok {
		for _, si := range st.Segments {
			if si.SealTime.IsZero() {
				continue
			}
			b, has := fs.ReadFile(segment.FileName(si))
			if !has {
				continue
			}
			_, groups, committed, _ := refmodel.DecodeSegment(b)
			if committed == 0 || len(groups) == 0 {
				v.add("C09", "sealed-without-commit", "%s: segment %s is sealed in metadata but holds no valid committed batch", where, segment.FileName(si))
				continue
			}
			idx := -1
			entries := 0
			for _, g := range groups {
				entries += len(g.Entries)
				if g.HasIndex {
					idx = g.IndexOffset
				}
			}
			if idx < 0 {
				v.add("C09", "sealed-no-index", "%s: segment %s is sealed in metadata but no committed batch carries an index frame", where, segment.FileName(si))
			} else if si.IndexStart != uint64(idx+8) {
				v.add("C09", "indexstart", "%s: segment %s: metadata IndexStart=%d but the index array is at offset %d", where, segment.FileName(si), si.IndexStart, idx+8)
			}
			if si.MaxIndex >= si.BaseIndex && int(si.MaxIndex-si.BaseIndex)+1 > entries {
				v.add("C09", "maxindex-beyond-file", "%s: segment %s: metadata MaxIndex=%d but the file holds only %d entries from %d", where, segment.FileName(si), si.MaxIndex, entries, si.BaseIndex)
			}
		}
	}
	if len(fs.CreateRetired) > 0 {
		v.add("C13", "id-reused-after-retire", "%s: a segment file was created with an ID that had already been retired from the metadata: %v", where, fs.CreateRetired)
	}
	// A name may legitimately be created again only for the same, still listed
	// segment whose file a crash lost; two different base indexes must never share an ID.
	ids := map[string]string{}
	for _, n := range fs.Created {
		if i := strings.IndexByte(n, '-'); i > 0 {
			id := strings.TrimSuffix(n[i+1:], ".wal")
			if prev, ok := ids[id]; ok && prev != n {
				v.add("C13", "id-reused", "%s: segment ID %s used for both %s and %s", where, id, prev, n)
			}
			ids[id] = n
		}
	}
}

// runOps executes ops until done or the FS crashes. It returns the index of
// the op during which the crash happened (-1 if none) and a harness failure.
func runOps(e *runEnv, t *tracker, ops []COp, v *verdicts, where string, cls map[string]bool) (crashed bool) {
	for i, op := range ops {
		if e.fs.Crashed() {
			return true
		}
		switch op.K {
		case "append":
			start := t.m.ResolveStart(op.Start)
			var logs []*raft.Log
			for j, es := range op.Entries {
				if len(es.Hostile) > 0 {
					t.everHostile = true
				}
				logs = append(logs, es.mkLog(start+uint64(j), t.gen))
			}
			t.submit(logs)
			t.infl = &inflight{kind: "append", logs: logs}
			err := e.w.StoreLogs(logs)
			if err == nil {
				t.m.Append(logs)
				t.ack(logs)
				t.infl = nil
				t.ackedAppends++
				kit.Barrier(e.w) // rotation (if any) runs to completion or to the crash
			} else if !e.fs.Crashed() {
				t.infl = nil
				v.add("C03", "append-refused", "%s: op %d StoreLogs(%d..%d) on a healthy filesystem = %v (model [%d,%d])", where, i, logs[0].Index, logs[len(logs)-1].Index, err, t.m.First, t.m.Last)
				return false
			}
		case "del":
			min, max := op.Min.Resolve(t.m), op.Max.Resolve(t.m)
			class := t.m.ClassifyDelete(min, max)
			if class == refmodel.DelMiddle || min > max {
				continue
			}
			t.infl = &inflight{kind: "del", min: min, max: max}
			before := t.m.Len()
			err := e.w.DeleteRange(min, max)
			if err == nil {
				t.m.Delete(min, max)
				t.infl = nil
				if t.m.Len() != before {
					t.hadTrunc = true
					t.gen++
					if class == refmodel.DelTail {
						cls["tail-trunc"] = true
					} else {
						cls["head-trunc"] = true
					}
				}
				kit.Barrier(e.w)
			} else if !e.fs.Crashed() {
				t.infl = nil
				v.add("C03", "delete-refused", "%s: op %d DeleteRange(%d,%d) on a healthy filesystem = %v", where, i, min, max, err)
				return false
			}
		case "set":
			t.infl = &inflight{kind: "set", key: op.Key, val: op.Val}
			err := e.w.Set([]byte(op.Key), op.Val)
			if err == nil {
				t.stable[op.Key] = op.Val
				t.infl = nil
			} else if !e.fs.Crashed() {
				t.infl = nil
				v.add("C03", "set-refused", "%s: Set = %v", where, err)
				return false
			}
		case "reopen":
			e.closeWAL()
			if err := e.open(); err != nil {
				if e.fs.Crashed() {
					return true
				}
				v.add("C03", "open-failed-clean", "%s: Open after clean Close = %v", where, err)
				if !t.m.Empty() {
					v.add("C01", "open-failed-clean", "%s: Open after clean Close = %v with acknowledged entries [%d,%d]", where, err, t.m.First, t.m.Last)
				}
				return false
			}
			if !e.fs.Crashed() {
				t.judgeRecovery(e.w, e.fs, v, where+" after clean reopen")
				checkDir(e.fs, v, where+" after clean reopen")
				cls["clean-reopen"] = true
			}
		}
		dbg("%s: op %d %v -> model [%d,%d] infl=%v | %s", where, i, op, t.m.First, t.m.Last, t.infl != nil, dumpState(e.fs))
		if len(v.fails) > 0 {
			return e.fs.Crashed()
		}
	}
	return e.fs.Crashed()
}

// usability is the C03 script run on a recovered WAL.
func usability(e *runEnv, t *tracker, v *verdicts, where string) {
	cls := map[string]bool{}
	es := []ESpec{{DataLen: 20, Seed: 201}, {DataLen: 3, Seed: 202}}
	ops := []COp{
		{K: "append", Entries: es, Start: 7},
		{K: "set", Key: "usab", Val: []byte{1, t.gen}},
		{K: "del", Min: &Pos{"first", 0}, Max: &Pos{"first", 0}},
		{K: "append", Entries: es[:1], Start: 7},
		{K: "del", Min: &Pos{"last", 0}, Max: &Pos{"last", 0}},
		{K: "append", Entries: es, Start: 9},
		{K: "reopen"},
		{K: "append", Entries: es[1:], Start: 3},
	}
	runOps(e, t, ops, v, where+" usability", cls)
	if len(v.fails) > 0 {
		return
	}
	// effects must be durable: lose everything un-synced, then reopen
	e.closeWAL()
	e.fs.CrashNow()
	e.fs = e.fs.PowerLoss(simfs.Tear{Mode: "none"})
	if err := e.open(); err != nil {
		v.add("C03", "open-failed-after-usability", "%s: Open after usability script + power loss = %v", where, err)
		if !t.m.Empty() {
			v.add("C01", "open-failed-after-usability", "%s: Open after usability script + power loss = %v with acknowledged entries [%d,%d]", where, err, t.m.First, t.m.Last)
		}
		return
	}
	if !t.judgeRecovery(e.w, e.fs, v, where+" after usability+power loss") {
		// the script's acknowledged effects were not durable
		if f, ok := v.fails["C01"]; ok {
			v.add("C03", "usability-not-durable", "%s", f.Msg)
		}
	}
	// the directory and the files the script's truncations, rotations and appends left behind
	// are held to the same format/identity rules as the first recovered image
	checkDir(e.fs, v, where+" after usability+power loss")
	if last, err := e.w.LastIndex(); err == nil {
		checkTailFormat(e.fs, last, v, where+" after usability+power loss")
	}
}

var errStop = errors.New("stop")

// Debug, when set, receives a trace of the execution (used by replays).
var Debug func(format string, a ...any)

func dbg(format string, a ...any) {
	if Debug != nil {
		Debug(format, a...)
	}
}

// describeFiles renders each file as its 8-byte words (hex), for debugging.
func describeFiles(fs *simfs.FS) string {
	var b strings.Builder
	for _, n := range fs.Names() {
		c, _ := fs.ReadFile(n)
		end := len(c)
		for end > 0 && c[end-1] == 0 {
			end--
		}
		end = (end + 7) / 8 * 8
		if end > len(c) {
			end = len(c)
		}
		fmt.Fprintf(&b, "  %s (len %d):", n, len(c))
		for o := 0; o < end; o += 8 {
			if o%64 == 0 {
				fmt.Fprintf(&b, "\n   %5d:", o)
			}
			e := o + 8
			if e > end {
				e = end
			}
			fmt.Fprintf(&b, " %x", c[o:e])
		}
		b.WriteString("\n")
	}
	return b.String()
}

func dumpState(fs *simfs.FS) string {
	st, _ := fs.MetaState()
	var b strings.Builder
	fmt.Fprintf(&b, "meta{next=%d", st.NextSegmentID)
	for _, s := range st.Segments {
		fmt.Fprintf(&b, " [id=%d base=%d min=%d max=%d idx=%d sealed=%v]", s.ID, s.BaseIndex, s.MinIndex, s.MaxIndex, s.IndexStart, !s.SealTime.IsZero())
	}
	fmt.Fprintf(&b, "} files=%v seq=%d crashed=%v", fs.Names(), fs.Seq(), fs.Crashed())
	return b.String()
}
