package crash

import (
	"encoding/json"
	"fmt"
	"os"
	"testing"

	"pgregory.net/rapid"

	"verifharness/common"
	"verifharness/refmodel"
	"verifharness/simfs"
)

func TestMain(m *testing.M) { common.Main(m) }

type profile struct {
	segs        []int
	delWeight   int // out of 100
	hostile     int // probability (percent) that an entry uses the hostile alphabet
	maxPhases   int
	reopenW     int
	coupleSizes bool
	hugeBatch   int // out of 1000: an append of 4-5 entries of ~280 KiB each (one StoreLogs of more than 1 MiB)
}

var profiles = map[string]profile{
	"C01": {segs: []int{1, 64, 96, 128, 256, 512, 4096}, delWeight: 20, hostile: 5, maxPhases: 2, reopenW: 8},
	"C02": {segs: []int{256, 512, 4096, 4096}, delWeight: 8, hostile: 70, maxPhases: 3, reopenW: 10, coupleSizes: true},
	"C03": {segs: []int{1, 64, 96, 128, 256, 512}, delWeight: 25, hostile: 0, maxPhases: 2, reopenW: 15},
	"C04": {segs: []int{1, 64, 128, 256, 512}, delWeight: 45, hostile: 0, maxPhases: 2, reopenW: 6},
	"C13": {segs: []int{1, 64, 128, 256}, delWeight: 40, hostile: 0, maxPhases: 2, reopenW: 8},
	"C09": {segs: []int{1, 64, 96, 128, 256, 512}, delWeight: 25, hostile: 0, maxPhases: 2, reopenW: 15},
}

var sizeChoices = []int{0, 1, 7, 8, 9, 20, 40, 60, 100, 170, 300, 600}

func genESpec(t *rapid.T, pr profile, seg int) ESpec {
	if pr.hostile > 0 && rapid.IntRange(0, 99).Draw(t, "hostile") < pr.hostile {
		n := rapid.IntRange(1, 12).Draw(t, "hwords")
		e := ESpec{}
		for i := 0; i < n; i++ {
			e.Hostile = append(e.Hostile, byte(rapid.IntRange(0, 9).Draw(t, "hw")))
		}
		return e
	}
	e := ESpec{Seed: uint8(rapid.IntRange(0, 255).Draw(t, "seed"))}
	c := rapid.IntRange(0, 9).Draw(t, "szc")
	switch {
	case c < 6:
		e.DataLen = rapid.SampledFrom(sizeChoices).Draw(t, "dl")
	case c < 8:
		e.DataLen = seg/3 + rapid.IntRange(-8, 8).Draw(t, "d3")
	case c < 9:
		e.DataLen = seg + rapid.IntRange(-40, 40).Draw(t, "ds")
	default:
		e.DataLen = rapid.IntRange(0, 2*seg+16).Draw(t, "dr")
	}
	if e.DataLen < 0 {
		e.DataLen = 0
	}
	if e.DataLen > 5000 {
		e.DataLen = 5000
	}
	return e
}

func genPos(t *rapid.T, l string) *Pos {
	rel := rapid.SampledFrom([]string{"zero", "first", "first", "last", "last", "mid", "mid"}).Draw(t, l+"rel")
	switch rel {
	case "zero":
		return &Pos{rel, int64(rapid.IntRange(0, 2).Draw(t, l+"off"))}
	case "mid":
		return &Pos{rel, int64(rapid.IntRange(0, 1000).Draw(t, l+"off"))}
	}
	return &Pos{rel, int64(rapid.IntRange(-1, 2).Draw(t, l+"off"))}
}

func genDel(t *rapid.T) COp {
	// prefix or suffix by construction (middle ranges are skipped at run time)
	if rapid.Bool().Draw(t, "head") {
		return COp{K: "del", Min: &Pos{rapid.SampledFrom([]string{"zero", "first"}).Draw(t, "hm"), 0}, Max: genPos(t, "max")}
	}
	return COp{K: "del", Min: genPos(t, "min"), Max: &Pos{"last", int64(rapid.IntRange(0, 2).Draw(t, "lm"))}}
}

func genOps(t *rapid.T, pr profile, seg, maxOps int, prev *[]int) []COp {
	n := rapid.IntRange(1, maxOps).Draw(t, "nops")
	var ops []COp
	for i := 0; i < n; i++ {
		k := rapid.IntRange(0, 99).Draw(t, "k")
		switch {
		case k < pr.delWeight:
			ops = append(ops, genDel(t))
		case k < pr.delWeight+pr.reopenW:
			ops = append(ops, COp{K: "reopen"})
		case k < pr.delWeight+pr.reopenW+5:
			ops = append(ops, COp{K: "set", Key: rapid.SampledFrom([]string{"CurrentTerm", "k2"}).Draw(t, "key"), Val: rapid.SliceOfN(rapid.Byte(), 0, 9).Draw(t, "val")})
		default:
			if pr.hugeBatch > 0 && rapid.IntRange(0, 999).Draw(t, "huge") < pr.hugeBatch {
				op := COp{K: "append", Start: 1}
				for j, m := 0, rapid.IntRange(4, 5).Draw(t, "hn"); j < m; j++ {
					op.Entries = append(op.Entries, ESpec{DataLen: 280000 + 8*j, Seed: uint8(j)})
				}
				ops = append(ops, op)
				continue
			}
			ops = append(ops, genAppendOp(t, pr, seg, prev, 1, 5))
		}
	}
	return ops
}

func genAppendOp(t *rapid.T, pr profile, seg int, prev *[]int, minN, maxN int) COp {
	{
		{
			op := COp{K: "append", Start: rapid.SampledFrom([]uint64{1, 1, 2, 5, 1000, refmodel.StartCont, refmodel.StartCont, 1<<63 - 1}).Draw(t, "start")}
			m := rapid.IntRange(minN, maxN).Draw(t, "n")
			for j := 0; j < m; j++ {
				e := genESpec(t, pr, seg)
				if pr.coupleSizes && prev != nil && len(*prev) > 0 && len(e.Hostile) == 0 && rapid.Bool().Draw(t, "couple") {
					// size coupling: same size as an earlier entry, or 8 less/more
					p := (*prev)[rapid.IntRange(0, len(*prev)-1).Draw(t, "pi")]
					e.DataLen = p + rapid.SampledFrom([]int{0, 0, -8, 8, -16}).Draw(t, "cd")
					if e.DataLen < 0 {
						e.DataLen = 0
					}
				}
				if prev != nil {
					if len(e.Hostile) > 0 {
						*prev = append(*prev, 8*len(e.Hostile))
					} else {
						*prev = append(*prev, e.DataLen)
					}
				}
				op.Entries = append(op.Entries, e)
			}
			return op
		}
	}
}

func genTear(t *rapid.T, mode string) simfs.Tear {
	tr := simfs.Tear{Mode: mode}
	tr.Cut = rapid.IntRange(0, 64).Draw(t, "cut")
	tr.DirKeep = rapid.SampledFrom([]uint64{0, ^uint64(0), 1, 2, 5, 0xAAAA}).Draw(t, "dirkeep")
	tr.LenFull = rapid.Bool().Draw(t, "lenfull")
	if mode == "mask" {
		tr.Mask = rapid.SliceOfN(rapid.Byte(), 1, 6).Draw(t, "mask")
	}
	return tr
}

var tearModes = []string{"none", "all", "prefix", "suffix", "allButFirst", "allButLast", "onlyLast"}

func genCase(p string) func(t *rapid.T) Case {
	pr := profiles[p]
	return func(t *rapid.T) Case {
		c := Case{FocusK: -1, FocusTear: -1}
		c.SegSize = rapid.SampledFrom(pr.segs).Draw(t, "seg")
		var prev []int
		np := rapid.IntRange(0, pr.maxPhases+common.Pick(0, 1)).Draw(t, "nphases")
		for i := 0; i < np; i++ {
			ph := Phase{Ops: genOps(t, pr, c.SegSize, 6, &prev), CrashSel: rapid.IntRange(0, 1000).Draw(t, "crashSel")}
			ph.Tear = genTear(t, rapid.SampledFrom(append(tearModes, "mask", "mask", "kill", "kill")).Draw(t, "tmode"))
			if pr.coupleSizes && rapid.IntRange(0, 9).Draw(t, "lastWrite") < 6 {
				// stale-bytes chains: end the phase with a (mostly hostile) append torn in flight
				ph.CrashMode = "lastWrite"
				ph.Ops = append(ph.Ops, genAppendOp(t, pr, c.SegSize, &prev, 1, 3))
				ph.Tear = genTear(t, rapid.SampledFrom([]string{"allButFirst", "allButLast", "prefix", "suffix", "mask", "mask", "onlyLast"}).Draw(t, "tmode2"))
			}
			c.Phases = append(c.Phases, ph)
		}
		c.Final = genOps(t, pr, c.SegSize, 8, &prev)
		for _, m := range tearModes {
			c.Tears = append(c.Tears, genTear(t, m))
		}
		// the process dies but the machine stays up: nothing is lost and nothing has become durable;
		// the power loss comes after the recovered WAL has been used again (usability script)
		c.Tears = append(c.Tears, simfs.Tear{Mode: "kill"})
		for i := 0; i < common.Pick(2, 8); i++ {
			c.Tears = append(c.Tears, genTear(t, "mask"))
		}
		for i := 0; i < 12; i++ {
			c.KSample = append(c.KSample, rapid.IntRange(0, 5000).Draw(t, "ks"))
		}
		return c
	}
}

func runFor(p string) func(Case) common.Result {
	return func(c Case) common.Result {
		r := RunCase(c, p)
		r.NonTrivial = false // counted per (case,k,tear) in SubNT
		return r
	}
}

func TestCrashC01(t *testing.T) { common.Run(t, "C01", "CrashC01", genCase("C01"), runFor("C01")) }

// TestCrashC01Stale judges C01 over the stale-bytes chains of the C02 profile (several torn batches
// on top of each other, sizes coupled so that old commit frames line up with new ones).
func TestCrashC01Stale(t *testing.T) {
	common.Run(t, "C01", "CrashC01Stale", genCase("C02"), runFor("C01"))
}
func TestCrashC03Stale(t *testing.T) {
	common.Run(t, "C03", "CrashC03Stale", genCase("C02"), runFor("C03"))
}

// TestCrashC09Stale: the format verdicts over the stale-bytes chains of the C02 generator.
func TestCrashC09Stale(t *testing.T) {
	common.Run(t, "C09", "CrashC09Stale", genCase("C02"), runFor("C09"))
}

// TestCrashC02Huge: one StoreLogs of more than 1 MiB (4-5 entries of ~280 KiB) as the last call before the
// crash, after a short ordinary prefix: present in full or absent in full, wherever the crash falls.
func TestCrashC02Huge(t *testing.T) {
	pr := profiles["C02"]
	common.Run(t, "C02", "CrashC02Huge", func(t *rapid.T) Case {
		c := Case{FocusK: -1, FocusTear: -1, SegSize: rapid.SampledFrom([]int{4096, 1 << 20, 4 << 20}).Draw(t, "seg")}
		var prev []int
		c.Final = genOps(t, pr, 4096, 3, &prev)
		op := COp{K: "append", Start: 1}
		for j, m := 0, rapid.IntRange(4, 5).Draw(t, "hn"); j < m; j++ {
			op.Entries = append(op.Entries, ESpec{DataLen: 280000 + 8*j, Seed: uint8(j)})
		}
		c.Final = append(c.Final, op)
		for _, m := range []string{"none", "all", "prefix", "suffix", "allButLast", "onlyLast"} {
			c.Tears = append(c.Tears, genTear(t, m))
		}
		for i := 0; i < 12; i++ {
			c.KSample = append(c.KSample, rapid.IntRange(0, 5000).Draw(t, "ks"))
		}
		return c
	}, runFor("C02"))
}
func TestCrashC02(t *testing.T) { common.Run(t, "C02", "CrashC02", genCase("C02"), runFor("C02")) }
func TestCrashC03(t *testing.T) { common.Run(t, "C03", "CrashC03", genCase("C03"), runFor("C03")) }
func TestCrashC04(t *testing.T) { common.Run(t, "C04", "CrashC04", genCase("C04"), runFor("C04")) }
func TestCrashC13(t *testing.T) { common.Run(t, "C13", "CrashC13", genCase("C13"), runFor("C13")) }
func TestCrashC09(t *testing.T) { common.Run(t, "C09", "CrashC09", genCase("C09"), runFor("C09")) }

// TestCrashC09Trunc judges the format verdict (a segment sealed in the metadata has its index frame,
// committed, at IndexStart) over the truncation-heavy workloads of the C04 generator.
func TestCrashC09Trunc(t *testing.T) {
	common.Run(t, "C09", "CrashC09Trunc", genCase("C04"), runFor("C09"))
}

// TestDebugReplay prints an execution trace of a saved case: VERIF_REPLAY=<file> VERIF_PROP=<id>.
func TestDebugReplay(t *testing.T) {
	rp := os.Getenv("VERIF_DEBUG_REPLAY")
	if rp == "" {
		t.Skip()
	}
	b, err := os.ReadFile(rp)
	if err != nil {
		t.Fatal(err)
	}
	var rf struct {
		Property string `json:"property"`
		Case     Case   `json:"case"`
	}
	if err := json.Unmarshal(b, &rf); err != nil {
		t.Fatal(err)
	}
	Debug = func(f string, a ...any) { fmt.Printf(f+"\n", a...) }
	defer func() { Debug = nil }()
	r := RunCase(rf.Case, rf.Property)
	if r.Fail != nil {
		fmt.Printf("FAIL [%s] %s\n", r.Fail.Sig, r.Fail.Msg)
	}
}
