module verifharness

go 1.23.0

require (
	github.com/hashicorp/go-hclog v1.6.3
	github.com/hashicorp/go-metrics v0.5.4
	github.com/hashicorp/raft v1.7.3
	github.com/hashicorp/raft-boltdb v0.0.0-20230125174641-2a8082862702
	github.com/hashicorp/raft-boltdb/v2 v2.3.1
	github.com/hashicorp/raft-wal v0.0.0
	go.etcd.io/bbolt v1.4.3
	pgregory.net/rapid v1.3.0
)

require (
	github.com/armon/go-metrics v0.4.1 // indirect
	github.com/benbjohnson/immutable v0.4.3 // indirect
	github.com/boltdb/bolt v1.3.1 // indirect
	github.com/fatih/color v1.13.0 // indirect
	github.com/hashicorp/go-immutable-radix v1.3.0 // indirect
	github.com/hashicorp/go-msgpack v1.1.5 // indirect
	github.com/hashicorp/go-msgpack/v2 v2.1.2 // indirect
	github.com/hashicorp/golang-lru v0.5.4 // indirect
	github.com/mattn/go-colorable v0.1.12 // indirect
	github.com/mattn/go-isatty v0.0.14 // indirect
	github.com/segmentio/fasthash v1.0.3 // indirect
	go.etcd.io/etcd/client/pkg/v3 v3.6.4 // indirect
	go.uber.org/multierr v1.11.0 // indirect
	go.uber.org/zap v1.27.0 // indirect
	golang.org/x/exp v0.0.0-20220827204233-334a2380cb91 // indirect
	golang.org/x/sys v0.31.0 // indirect
)

replace github.com/hashicorp/raft-wal => /repo
