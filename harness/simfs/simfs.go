// Package simfs is a simulated types.VFS + types.MetaStore that separates what
// the page cache holds (what reads return) from what is durable (what survives
// power loss). It implements the durability contract the WAL core is allowed
// to assume from its VFS (see DESIGN.md §3/E1):
//
//   - WriteAt changes only the cache until Sync on a handle of that file.
//   - Create/Delete change only the volatile directory until a directory sync.
//   - The first Sync on any writable handle also syncs the directory.
//   - Delete = unlink followed by a directory sync.
//   - MetaStore.CommitState / SetStable are atomic and durable on return.
//
// Every mutating step is a numbered event. A crash "after event k" lets events
// 1..k complete and makes every later call fail with ErrCrashed. PowerLoss then
// builds the post-crash image from a Tear plan (which 8-byte chunks of
// un-synced writes and which pending directory operations reached the disk).
package simfs

import (
	"encoding/json"
	"errors"
	"fmt"
	"io"
	"math"
	"os"
	"sort"
	"sync"

	"github.com/hashicorp/raft-wal/types"
)

var ErrCrashed = errors.New("simfs: crashed")

// Kind names an I/O call kind. Mutating kinds are numbered as crash events.
type Kind string

const (
	KWriteAt     Kind = "WriteAt"
	KSyncFile    Kind = "SyncFile"
	KSyncDir     Kind = "SyncDir" // first Sync on a writable handle
	KCreate      Kind = "Create"
	KUnlink      Kind = "Unlink"
	KUnlinkSync  Kind = "UnlinkDirSync"
	KCommitState Kind = "CommitState"
	KSetStable   Kind = "SetStable"
	// non-mutating
	KListDir    Kind = "ListDir"
	KOpenReader Kind = "OpenReader"
	KOpenWriter Kind = "OpenWriter"
	KReadAt     Kind = "ReadAt"
	KLoad       Kind = "Load"
	KGetStable  Kind = "GetStable"
	KClose      Kind = "Close"
	// KMetaClose: MetaStore.Close (not mutating; a point where a schedule can hold Close after it
	// has replaced the state and before it lets go of it)
	KMetaClose Kind = "MetaClose"
)

func (k Kind) Mutating() bool {
	switch k {
	case KWriteAt, KSyncFile, KSyncDir, KCreate, KUnlink, KUnlinkSync, KCommitState, KSetStable:
		return true
	}
	return false
}

// Event describes one call about to be applied.
type Event struct {
	Kind Kind
	Name string // file name ("" for metadata)
	Seq  int    // ordinal among mutating events (1-based) or 0 for non-mutating
	Ord  int    // ordinal among calls of this Kind (1-based)
	Off  int64
	Len  int
}

// Hook is called (without the FS lock held) before an event is applied. It may
// block (gating) or return an error (fault injection). If it returns
// (n>=0, err) for a WriteAt, the first n bytes are applied before failing.
type Hook func(ev Event) (partial int, err error)

type write struct {
	off  int64
	data []byte
}

type inode struct {
	cache   []byte  // what reads see (written extent only; zeros up to size)
	size    int64   // logical file length (>= len(cache)): preallocation is sparse
	dsize   int64   // durable logical length
	disk    []byte  // what survives power loss
	pending []write // un-synced writes, in order
	// preSize is the preallocated size recorded at Create; until first file sync
	// the durable length may be 0 or preSize (or whatever chunks force).
	synced   bool
	handles  int
	unlinked bool
}

type FS struct {
	mu  sync.Mutex
	cur map[string]*inode // volatile namespace
	dur map[string]*inode // durable namespace

	meta   []byte            // JSON of committed PersistentState (nil = none)
	stable map[string][]byte // durable stable KVs

	seq     int
	ord     map[Kind]int
	crashAt int // crash after this many mutating events (-1 = never)
	crashed bool

	hook Hook

	// ledger
	Created []string // every name ever passed to Create, in order
	// RetiredIDs are segment IDs that were listed in committed metadata and
	// later dropped from it; CreateRetired records Creates of such IDs.
	RetiredIDs    map[uint64]bool
	CreateRetired []string
	LiveIDs       map[uint64]bool
	metaHeld      bool              // the metadata store's exclusive lock is held by some Meta view
	liveBase      map[uint64]uint64 // base index of each listed ID
	retiredBase   map[uint64]uint64 // base index an ID had when it was retired
	CreateDup     []string          // Create called on an existing name
	Trace         []Event           // recorded events if RecordTrace
	RecordTrace   bool
	ReadBudget    func(name string, size int) int // optional per-handle ReadAt budget
	// PostRead, if set, runs after every ReadAt has filled p (outside the lock).
	PostRead func(name string, p []byte, off int64, n int, err error)
}

func New() *FS {
	return &FS{cur: map[string]*inode{}, dur: map[string]*inode{}, stable: map[string][]byte{}, ord: map[Kind]int{}, crashAt: -1}
}

func (fs *FS) SetHook(h Hook)      { fs.mu.Lock(); fs.hook = h; fs.mu.Unlock() }
func (fs *FS) SetCrashAfter(k int) { fs.mu.Lock(); fs.crashAt = k; fs.mu.Unlock() }
func (fs *FS) Crashed() bool       { fs.mu.Lock(); defer fs.mu.Unlock(); return fs.crashed }
func (fs *FS) Seq() int            { fs.mu.Lock(); defer fs.mu.Unlock(); return fs.seq }
func (fs *FS) CrashNow()           { fs.mu.Lock(); fs.crashed = true; fs.mu.Unlock() }
func (fs *FS) Counts() map[Kind]int {
	fs.mu.Lock()
	defer fs.mu.Unlock()
	m := map[Kind]int{}
	for k, v := range fs.ord {
		m[k] = v
	}
	return m
}

// begin numbers the event, runs the hook, and decides whether it may proceed.
func (fs *FS) begin(kind Kind, name string, off int64, n int) (Event, int, error) {
	fs.mu.Lock()
	if fs.crashed {
		fs.mu.Unlock()
		return Event{}, -1, ErrCrashed
	}
	ev := Event{Kind: kind, Name: name, Off: off, Len: n}
	fs.ord[kind]++
	ev.Ord = fs.ord[kind]
	if kind.Mutating() {
		if fs.crashAt >= 0 && fs.seq >= fs.crashAt {
			fs.crashed = true
			fs.mu.Unlock()
			return ev, -1, ErrCrashed
		}
		fs.seq++
		ev.Seq = fs.seq
	}
	if fs.RecordTrace {
		fs.Trace = append(fs.Trace, ev)
	}
	h := fs.hook
	fs.mu.Unlock()
	if h != nil {
		p, err := h(ev)
		if err != nil {
			return ev, p, err
		}
		// The hook may have blocked; re-check crash state.
		fs.mu.Lock()
		c := fs.crashed
		fs.mu.Unlock()
		if c {
			return ev, -1, ErrCrashed
		}
	}
	return ev, -1, nil
}

// ---------------------------------------------------------------- VFS

func (fs *FS) ListDir(dir string) ([]string, error) {
	if _, _, err := fs.begin(KListDir, "", 0, 0); err != nil {
		return nil, err
	}
	fs.mu.Lock()
	defer fs.mu.Unlock()
	return fs.listLocked(), nil
}

func (fs *FS) listLocked() []string {
	names := make([]string, 0, len(fs.cur))
	for n := range fs.cur {
		names = append(names, n)
	}
	sort.Strings(names)
	return names
}

// Names returns the volatile directory listing without counting as an event.
func (fs *FS) Names() []string { fs.mu.Lock(); defer fs.mu.Unlock(); return fs.listLocked() }

func (fs *FS) Create(dir, name string, size uint64) (types.WritableFile, error) {
	_, partial, herr := fs.begin(KCreate, name, 0, int(size))
	if herr != nil && partial <= 0 {
		return nil, herr
	}
	fs.mu.Lock()
	defer fs.mu.Unlock()
	if herr != nil {
		// fault "after partial effect": the directory entry was made (as when
		// preallocation fails with ENOSPC after open(O_CREAT|O_EXCL)) but the call fails
		fs.Created = append(fs.Created, name)
		if _, ok := fs.cur[name]; ok {
			fs.CreateDup = append(fs.CreateDup, name)
		} else {
			fs.cur[name] = &inode{}
		}
		return nil, herr
	}
	fs.Created = append(fs.Created, name)
	var bi, id uint64
	if n, _ := fmt.Sscanf(name, "%020d-%016x.wal", &bi, &id); n == 2 && fs.RetiredIDs[id] {
		fs.CreateRetired = append(fs.CreateRetired, name)
	}
	if _, ok := fs.cur[name]; ok {
		fs.CreateDup = append(fs.CreateDup, name)
		return nil, fmt.Errorf("simfs: create %s: %w", name, os.ErrExist)
	}
	if size > math.MaxInt32 {
		return nil, fmt.Errorf("simfs: maximum file size is %d bytes", math.MaxInt32)
	}
	ino := &inode{size: int64(size)}
	fs.cur[name] = ino
	ino.handles++
	return &handle{fs: fs, ino: ino, name: name, writable: true}, nil
}

func (fs *FS) Delete(dir, name string) error {
	if _, _, err := fs.begin(KUnlink, name, 0, 0); err != nil {
		return err
	}
	fs.mu.Lock()
	ino, ok := fs.cur[name]
	if !ok {
		fs.mu.Unlock()
		return fmt.Errorf("simfs: delete %s: %w", name, os.ErrNotExist)
	}
	ino.unlinked = true
	delete(fs.cur, name)
	fs.mu.Unlock()
	if _, _, err := fs.begin(KUnlinkSync, name, 0, 0); err != nil {
		return err
	}
	fs.mu.Lock()
	fs.syncDirLocked()
	fs.mu.Unlock()
	return nil
}

func (fs *FS) syncDirLocked() {
	fs.dur = make(map[string]*inode, len(fs.cur))
	for n, i := range fs.cur {
		fs.dur[n] = i
	}
}

func (fs *FS) OpenReader(dir, name string) (types.ReadableFile, error) {
	if _, _, err := fs.begin(KOpenReader, name, 0, 0); err != nil {
		return nil, err
	}
	fs.mu.Lock()
	defer fs.mu.Unlock()
	ino, ok := fs.cur[name]
	if !ok {
		return nil, fmt.Errorf("simfs: open %s: %w", name, os.ErrNotExist)
	}
	ino.handles++
	return &handle{fs: fs, ino: ino, name: name}, nil
}

func (fs *FS) OpenWriter(dir, name string) (types.WritableFile, error) {
	if _, _, err := fs.begin(KOpenWriter, name, 0, 0); err != nil {
		return nil, err
	}
	fs.mu.Lock()
	defer fs.mu.Unlock()
	ino, ok := fs.cur[name]
	if !ok {
		return nil, fmt.Errorf("simfs: open %s: %w", name, os.ErrNotExist)
	}
	ino.handles++
	return &handle{fs: fs, ino: ino, name: name, writable: true}, nil
}

type handle struct {
	fs       *FS
	ino      *inode
	name     string
	writable bool
	synced   bool
	closed   bool
	reads    int
}

func (h *handle) WriteAt(p []byte, off int64) (int, error) {
	if !h.writable {
		return 0, errors.New("simfs: write on read-only handle")
	}
	_, partial, err := h.fs.begin(KWriteAt, h.name, off, len(p))
	if err != nil && partial <= 0 {
		return 0, err
	}
	n := len(p)
	if err != nil {
		if partial > n {
			partial = n
		}
		n = partial
	}
	h.fs.mu.Lock()
	defer h.fs.mu.Unlock()
	if h.closed {
		return 0, os.ErrClosed
	}
	data := append([]byte(nil), p[:n]...)
	end := off + int64(n)
	if int64(len(h.ino.cache)) < end {
		h.ino.cache = append(h.ino.cache, make([]byte, end-int64(len(h.ino.cache)))...)
	}
	copy(h.ino.cache[off:], data)
	if end > h.ino.size {
		h.ino.size = end
	}
	h.ino.pending = append(h.ino.pending, write{off, data})
	return n, err
}

func (h *handle) ReadAt(p []byte, off int64) (n int, err error) {
	if _, _, err := h.fs.begin(KReadAt, h.name, off, len(p)); err != nil {
		return 0, err
	}
	h.fs.mu.Lock()
	post := h.fs.PostRead
	defer func() {
		h.fs.mu.Unlock()
		if post != nil {
			post(h.name, p, off, n, err) // outside the lock: the hook may park the reader with its buffer filled
		}
	}()
	if h.closed {
		return 0, os.ErrClosed
	}
	h.reads++
	if h.fs.ReadBudget != nil {
		if b := h.fs.ReadBudget(h.name, int(h.ino.size)); b > 0 && h.reads > b {
			panic(fmt.Sprintf("SIMFS-READ-BUDGET: %d reads on one handle of %s (size %d)", h.reads, h.name, h.ino.size))
		}
	}
	if off < 0 {
		return 0, errors.New("simfs: negative offset")
	}
	if off >= h.ino.size {
		return 0, io.EOF
	}
	n = len(p)
	if int64(n) > h.ino.size-off {
		n = int(h.ino.size - off)
	}
	for i := 0; i < n; i++ {
		p[i] = 0
	}
	if off < int64(len(h.ino.cache)) {
		copy(p[:n], h.ino.cache[off:])
	}
	if n < len(p) {
		return n, io.EOF
	}
	return n, nil
}

func (h *handle) Sync() error {
	if !h.writable {
		return errors.New("simfs: sync on read-only handle")
	}
	if _, _, err := h.fs.begin(KSyncFile, h.name, 0, 0); err != nil {
		return err
	}
	h.fs.mu.Lock()
	if h.closed {
		h.fs.mu.Unlock()
		return os.ErrClosed
	}
	h.ino.disk = append(h.ino.disk[:0:0], h.ino.cache...)
	h.ino.dsize = h.ino.size
	h.ino.pending = nil
	h.ino.synced = true
	first := !h.synced
	h.fs.mu.Unlock()
	if first {
		if _, _, err := h.fs.begin(KSyncDir, h.name, 0, 0); err != nil {
			// contract: the directory sync did not happen, so the next Sync on
			// this handle has to try again
			return err
		}
		h.fs.mu.Lock()
		h.fs.syncDirLocked()
		h.synced = true
		h.fs.mu.Unlock()
	}
	return nil
}

func (h *handle) Close() error {
	h.fs.mu.Lock()
	defer h.fs.mu.Unlock()
	if h.closed {
		return os.ErrClosed
	}
	h.closed = true
	h.ino.handles--
	return nil
}

// OpenHandles reports open handle counts per live or unlinked inode name.
func (fs *FS) OpenHandles() int {
	fs.mu.Lock()
	defer fs.mu.Unlock()
	seen := map[*inode]bool{}
	n := 0
	for _, i := range fs.cur {
		if !seen[i] {
			seen[i] = true
			n += i.handles
		}
	}
	for _, i := range fs.dur {
		if !seen[i] {
			seen[i] = true
			n += i.handles
		}
	}
	return n
}

// HandlesOn returns the number of open handles on the named (volatile) file, or -1.
func (fs *FS) HandlesOn(name string) int {
	fs.mu.Lock()
	defer fs.mu.Unlock()
	if i, ok := fs.cur[name]; ok {
		return i.handles
	}
	return -1
}

// ReadFile returns a copy of the cached content of a file.
func (fs *FS) ReadFile(name string) ([]byte, bool) {
	fs.mu.Lock()
	defer fs.mu.Unlock()
	i, ok := fs.cur[name]
	if !ok {
		return nil, false
	}
	b := append([]byte(nil), i.cache...)
	if int64(len(b)) < i.size && i.size <= 64<<20 {
		b = append(b, make([]byte, i.size-int64(len(b)))...)
	}
	return b, true
}

// WriteFile installs a file with the given content as fully durable (test setup / fuzzing).
func (fs *FS) WriteFile(name string, content []byte) {
	fs.mu.Lock()
	defer fs.mu.Unlock()
	ino := &inode{cache: append([]byte(nil), content...), disk: append([]byte(nil), content...), synced: true, size: int64(len(content)), dsize: int64(len(content))}
	fs.cur[name] = ino
	fs.dur[name] = ino
}

// RemoveFile removes a file durably (fuzzing).
func (fs *FS) RemoveFile(name string) {
	fs.mu.Lock()
	defer fs.mu.Unlock()
	delete(fs.cur, name)
	delete(fs.dur, name)
}

// ---------------------------------------------------------------- MetaStore

// Meta returns a types.MetaStore view bound to this FS. Each WAL instance
// should get its own (Close only marks that view closed).
func (fs *FS) Meta() *Meta { return &Meta{fs: fs} }

// ErrMetaLocked: the metadata store is still held by an instance that was never closed. The real
// store (bolt, exclusive flock, no timeout) would block the second Open forever; the model fails it.
var ErrMetaLocked = errors.New("simfs: metadata store is locked by an earlier instance that was never closed (the real store would block here)")

type Meta struct {
	fs     *FS
	closed bool
	held   bool // this view holds the store's exclusive lock (taken by Load, dropped by Close)
	mu     sync.Mutex
	// CloseErr, if set, is returned by Close (fault injection).
	CloseErr error
}

func (m *Meta) Load(dir string) (types.PersistentState, error) {
	var st types.PersistentState
	if _, _, err := m.fs.begin(KLoad, "", 0, 0); err != nil {
		return st, err
	}
	m.fs.mu.Lock()
	if m.fs.metaHeld && !m.held {
		m.fs.mu.Unlock()
		return st, ErrMetaLocked
	}
	m.held, m.fs.metaHeld = true, true
	raw := m.fs.meta
	m.fs.mu.Unlock()
	if raw == nil {
		return st, nil
	}
	if err := json.Unmarshal(raw, &st); err != nil {
		return st, fmt.Errorf("%w: failed to parse persisted state: %s", types.ErrCorrupt, err)
	}
	return st, nil
}

func (m *Meta) CommitState(st types.PersistentState) error {
	raw, err := json.Marshal(st)
	if err != nil {
		return err
	}
	if _, _, err := m.fs.begin(KCommitState, "", 0, len(raw)); err != nil {
		return err
	}
	m.fs.mu.Lock()
	m.fs.meta = raw
	now := map[uint64]bool{}
	nowBase := map[uint64]uint64{}
	for _, si := range st.Segments {
		now[si.ID] = true
		nowBase[si.ID] = si.BaseIndex
	}
	if m.fs.RetiredIDs == nil {
		m.fs.RetiredIDs = map[uint64]bool{}
	}
	if m.fs.retiredBase == nil {
		m.fs.retiredBase = map[uint64]uint64{}
	}
	for id := range m.fs.LiveIDs {
		if !now[id] {
			m.fs.RetiredIDs[id] = true
			m.fs.retiredBase[id] = m.fs.liveBase[id]
		}
	}
	// the very same segment (ID and base index) listed again is a roll-back to the previous
	// state (a commit undone after a failed segment creation), not a re-use of the identity
	for id, base := range nowBase {
		if m.fs.RetiredIDs[id] && m.fs.retiredBase[id] == base {
			delete(m.fs.RetiredIDs, id)
			delete(m.fs.retiredBase, id)
		}
	}
	m.fs.LiveIDs = now
	m.fs.liveBase = nowBase
	m.fs.mu.Unlock()
	return nil
}

func (m *Meta) GetStable(key []byte) ([]byte, error) {
	if _, _, err := m.fs.begin(KGetStable, "", 0, 0); err != nil {
		return nil, err
	}
	m.fs.mu.Lock()
	defer m.fs.mu.Unlock()
	v, ok := m.fs.stable[string(key)]
	if !ok {
		return nil, nil
	}
	return append([]byte{}, v...), nil
}

func (m *Meta) SetStable(key, value []byte) error {
	if _, _, err := m.fs.begin(KSetStable, "", 0, 0); err != nil {
		return err
	}
	m.fs.mu.Lock()
	defer m.fs.mu.Unlock()
	if value == nil {
		delete(m.fs.stable, string(key))
	} else {
		m.fs.stable[string(key)] = append([]byte{}, value...)
	}
	return nil
}

// Close marks the view closed. With CloseErr set it reports that error (the store is closed all the same).
func (m *Meta) Close() error {
	if _, _, err := m.fs.begin(KMetaClose, "", 0, 0); err != nil && !errors.Is(err, ErrCrashed) {
		return err
	}
	m.mu.Lock()
	defer m.mu.Unlock()
	m.closed = true
	m.fs.mu.Lock()
	if m.held {
		m.held, m.fs.metaHeld = false, false
	}
	m.fs.mu.Unlock()
	return m.CloseErr
}

// MetaState returns the committed state (decoded), ok=false if none.
func (fs *FS) MetaState() (types.PersistentState, bool) {
	fs.mu.Lock()
	raw := fs.meta
	fs.mu.Unlock()
	var st types.PersistentState
	if raw == nil {
		return st, false
	}
	_ = json.Unmarshal(raw, &st)
	return st, true
}

func (fs *FS) MetaRaw() []byte {
	fs.mu.Lock()
	defer fs.mu.Unlock()
	return append([]byte(nil), fs.meta...)
}
func (fs *FS) SetMetaRaw(b []byte) { fs.mu.Lock(); fs.meta = append([]byte(nil), b...); fs.mu.Unlock() }
func (fs *FS) Stable() map[string][]byte {
	fs.mu.Lock()
	defer fs.mu.Unlock()
	m := map[string][]byte{}
	for k, v := range fs.stable {
		m[k] = append([]byte{}, v...)
	}
	return m
}

// ---------------------------------------------------------------- crash images

// PendingInfo describes what was volatile at the crash, so a generator can
// build a Tear plan of the right shape.
type PendingInfo struct {
	Files  []PendingFile // files (by volatile or durable name) with un-synced writes
	DirOps []string      // names whose directory entry differs between volatile and durable view
}
type PendingFile struct {
	Name     string
	Chunks   int  // total 8-byte chunks over all pending writes
	NewFile  bool // never file-synced
	CacheLen int
	DiskLen  int
}

func (fs *FS) Pending() PendingInfo {
	fs.mu.Lock()
	defer fs.mu.Unlock()
	var pi PendingInfo
	names := fs.allNamesLocked()
	for _, n := range names {
		ino := fs.inodeLocked(n)
		if len(ino.pending) > 0 || !ino.synced {
			pf := PendingFile{Name: n, NewFile: !ino.synced, CacheLen: int(ino.size), DiskLen: int(ino.dsize)}
			for _, w := range ino.pending {
				pf.Chunks += len(chunksOf(w))
			}
			if pf.Chunks > 0 || pf.NewFile {
				pi.Files = append(pi.Files, pf)
			}
		}
		if fs.cur[n] != fs.dur[n] {
			pi.DirOps = append(pi.DirOps, n)
		}
	}
	return pi
}

func (fs *FS) allNamesLocked() []string {
	set := map[string]bool{}
	for n := range fs.cur {
		set[n] = true
	}
	for n := range fs.dur {
		set[n] = true
	}
	names := make([]string, 0, len(set))
	for n := range set {
		names = append(names, n)
	}
	sort.Strings(names)
	return names
}

func (fs *FS) inodeLocked(n string) *inode {
	if i, ok := fs.cur[n]; ok {
		return i
	}
	return fs.dur[n]
}

type chunk struct {
	off  int64
	data []byte
}

// chunksOf splits a write at absolute 8-byte-aligned file offsets.
func chunksOf(w write) []chunk {
	var cs []chunk
	off := w.off
	data := w.data
	for len(data) > 0 {
		n := int(8 - off%8)
		if n > len(data) {
			n = len(data)
		}
		cs = append(cs, chunk{off, data[:n]})
		off += int64(n)
		data = data[n:]
	}
	return cs
}

// Tear decides what reached the disk. All functions are pure so the plan is
// serialisable: Mode selects a named chunk subset per file; Mask supplies bits
// for ModeMask; DirKeep supplies one bit per pending directory op (in sorted
// name order), LenFull says whether never-synced preallocated files keep their
// full preallocated length.
type Tear struct {
	Mode    string `json:"mode"` // none, all, prefix, suffix, allButFirst, allButLast, onlyLast, mask
	Cut     int    `json:"cut,omitempty"`
	Mask    []byte `json:"mask,omitempty"`
	DirKeep uint64 `json:"dirKeep"` // bit i: pending dir op i is durable (new view wins)
	LenFull bool   `json:"lenFull"`
}

func (t Tear) keep(i, n int) bool {
	switch t.Mode {
	case "none":
		return false
	case "all":
		return true
	case "prefix":
		if n == 0 {
			return false
		}
		return i < t.Cut%(n+1)
	case "suffix":
		if n == 0 {
			return false
		}
		return i >= t.Cut%(n+1)
	case "allButFirst":
		return i != 0
	case "allButLast":
		return i != n-1
	case "onlyLast":
		return i == n-1
	case "mask":
		if len(t.Mask) == 0 {
			return false
		}
		b := t.Mask[(i/8)%len(t.Mask)]
		return b&(1<<(uint(i)%8)) != 0
	}
	return false
}

// PowerLoss returns a new FS holding the post-crash image: durable metadata
// and stable map, and for each file the durable bytes plus the kept chunks of
// its un-synced writes. The new FS has no pending state, no hook and fresh
// counters; the ledger of created names is carried over.
func (fs *FS) PowerLoss(t Tear) *FS {
	fs.mu.Lock()
	defer fs.mu.Unlock()
	nf := New()
	nf.meta = append([]byte(nil), fs.meta...)
	if fs.meta == nil {
		nf.meta = nil
	}
	for k, v := range fs.stable {
		nf.stable[k] = append([]byte{}, v...)
	}
	nf.Created = append([]string(nil), fs.Created...)
	nf.CreateDup = append([]string(nil), fs.CreateDup...)
	nf.copyLedger(fs)

	// Directory: for each differing name choose volatile or durable view.
	names := fs.allNamesLocked()
	bit := 0
	chosen := map[string]*inode{}
	for _, n := range names {
		c, d := fs.cur[n], fs.dur[n]
		if c == d {
			chosen[n] = c
			continue
		}
		useNew := t.DirKeep&(1<<uint(bit%64)) != 0
		bit++
		var pick *inode
		if useNew {
			pick = c
		} else {
			pick = d
		}
		if pick != nil {
			chosen[n] = pick
		}
	}
	for n, ino := range chosen {
		img := append([]byte(nil), ino.disk...)
		// count chunks
		total := 0
		for _, w := range ino.pending {
			total += len(chunksOf(w))
		}
		i := 0
		maxEnd := int64(len(img))
		for _, w := range ino.pending {
			for _, c := range chunksOf(w) {
				if t.keep(i, total) {
					end := c.off + int64(len(c.data))
					if int64(len(img)) < end {
						img = append(img, make([]byte, end-int64(len(img)))...)
					}
					copy(img[c.off:], c.data)
					if end > maxEnd {
						maxEnd = end
					}
				}
				i++
			}
		}
		// logical length: durable length, extended by kept chunks; never-synced
		// (or extended) files may keep their full cached (preallocated) length
		isz := ino.dsize
		if int64(len(img)) > isz {
			isz = int64(len(img))
		}
		if t.LenFull && isz < ino.size {
			isz = ino.size
		}
		ni := &inode{cache: img, disk: append([]byte(nil), img...), synced: true, size: isz, dsize: isz}
		nf.cur[n] = ni
		nf.dur[n] = ni
	}
	return nf
}

// Crash returns the filesystem that the next process instance finds. Mode
// "kill" is a process crash on a machine that stays up: every write made so
// far is still in the page cache - visible to whoever opens the files next,
// but exactly as un-synced as before, so a later PowerLoss may still drop any
// of it. Every other mode is a power loss with that tear.
func (fs *FS) Crash(t Tear) *FS {
	if t.Mode == "kill" {
		return fs.Clone()
	}
	return fs.PowerLoss(t)
}

// Clone returns a deep copy of the FS including volatile state (for running
// several crash variants from the same pre-state). Open handles are not
// carried over, so only clone a quiescent FS with no live WAL on it.
func (fs *FS) Clone() *FS {
	fs.mu.Lock()
	defer fs.mu.Unlock()
	nf := New()
	if fs.meta != nil {
		nf.meta = append([]byte(nil), fs.meta...)
	}
	for k, v := range fs.stable {
		nf.stable[k] = append([]byte{}, v...)
	}
	nf.Created = append([]string(nil), fs.Created...)
	nf.CreateDup = append([]string(nil), fs.CreateDup...)
	nf.copyLedger(fs)
	m := map[*inode]*inode{}
	cp := func(i *inode) *inode {
		if i == nil {
			return nil
		}
		if c, ok := m[i]; ok {
			return c
		}
		c := &inode{cache: append([]byte(nil), i.cache...), disk: append([]byte(nil), i.disk...), synced: i.synced, size: i.size, dsize: i.dsize}
		for _, w := range i.pending {
			c.pending = append(c.pending, write{w.off, append([]byte(nil), w.data...)})
		}
		m[i] = c
		return c
	}
	for n, i := range fs.cur {
		nf.cur[n] = cp(i)
	}
	for n, i := range fs.dur {
		nf.dur[n] = cp(i)
	}
	return nf
}

func (nf *FS) copyLedger(fs *FS) {
	nf.RetiredIDs = map[uint64]bool{}
	for k := range fs.RetiredIDs {
		nf.RetiredIDs[k] = true
	}
	nf.LiveIDs = map[uint64]bool{}
	for k := range fs.LiveIDs {
		nf.LiveIDs[k] = true
	}
	nf.liveBase = map[uint64]uint64{}
	for k, v := range fs.liveBase {
		nf.liveBase[k] = v
	}
	nf.retiredBase = map[uint64]uint64{}
	for k, v := range fs.retiredBase {
		nf.retiredBase[k] = v
	}
	nf.CreateRetired = append([]string(nil), fs.CreateRetired...)
}

// Quiesce turns the current cache view into a fully durable one (as if a clean
// shutdown were followed by sync(1)). Used after a clean Close.
func (fs *FS) Quiesce() {
	fs.mu.Lock()
	defer fs.mu.Unlock()
	for _, i := range fs.cur {
		i.disk = append(i.disk[:0:0], i.cache...)
		i.dsize = i.size
		i.pending = nil
		i.synced = true
	}
	fs.syncDirLocked()
}
