// Package migr checks migrate.CopyLogs / CopyStable (C19).
package migr

import (
	"bytes"
	"context"
	"errors"
	"fmt"
	"math"
	"os"
	"path/filepath"
	"sync"
	"testing"
	"time"

	"github.com/hashicorp/raft"
	raftboltdb1 "github.com/hashicorp/raft-boltdb"
	raftboltdb2 "github.com/hashicorp/raft-boltdb/v2"
	"github.com/hashicorp/raft-wal/migrate"
	"pgregory.net/rapid"

	"verifharness/common"
	"verifharness/kit"
	"verifharness/simfs"
)

func TestMain(m *testing.M) { common.Main(m) }

type fullStore interface {
	raft.LogStore
	raft.StableStore
}

type CopyCase struct {
	Src        string          `json:"src"` // walsim, walreal, inmem, bolt1, bolt2
	DstKind    string          `json:"dst"`
	First      uint64          `json:"first"`
	Entries    []kit.EntrySpec `json:"e"`
	BatchBytes int             `json:"bb"`
	Progress   string          `json:"prog"`               // nil, buffered, unbuffered
	CancelAt   int             `json:"cancel"`             // 0 = none; k = cancel during k-th GetLog
	Deadline   bool            `json:"deadline,omitempty"` // the context ends by deadline (DeadlineExceeded) instead of cancel()
	SegSize    int             `json:"seg"`
	SrcErr     string          `json:"srcerr,omitempty"` // "", first, last, get: the source fails that call
	DstErrAt   int             `json:"dsterr,omitempty"` // k>0: the destination's k-th StoreLogs fails
}

var storeKinds = []string{"walsim", "walsim", "walreal", "inmem", "bolt1", "bolt2"}

func genCopyCase(t *rapid.T) CopyCase {
	c := CopyCase{}
	c.Src = rapid.SampledFrom(storeKinds).Draw(t, "src")
	c.DstKind = rapid.SampledFrom(storeKinds).Draw(t, "dst")
	c.First = rapid.SampledFrom([]uint64{1, 1, 2, 1000, 1 << 40}).Draw(t, "first")
	n := rapid.SampledFrom([]int{0, 0, 1, 2, 3, 5, 8, 13, 30, 60}).Draw(t, "n")
	// bulk: a source of more than 1 MiB (entries of 20-70 KiB), so that one destination batch can be
	// far larger than any internal buffer of the destination store
	bulk := rapid.IntRange(0, 7).Draw(t, "bulk") == 0
	if bulk {
		n = rapid.IntRange(20, 45).Draw(t, "nbulk")
	}
	total := 0
	sizes := []int{}
	for i := 0; i < n; i++ {
		e := kit.EntrySpec{Term: uint64(rapid.IntRange(0, 9).Draw(t, "term")), Type: uint8(rapid.IntRange(0, 5).Draw(t, "ty")), Seed: uint8(rapid.IntRange(0, 255).Draw(t, "seed"))}
		e.DataLen = rapid.SampledFrom([]int{0, 1, 10, 31, 32, 33, 100, 500, 5000}).Draw(t, "dl")
		if bulk {
			e.DataLen = rapid.SampledFrom([]int{20000, 32768, 40000, 65500, 65536, 70000}).Draw(t, "dlbulk")
		}
		if rapid.IntRange(0, 3).Draw(t, "ext") == 0 {
			e.ExtLen = rapid.IntRange(1, 30).Draw(t, "el")
		}
		if rapid.Bool().Draw(t, "tm") {
			e.Time = rapid.Int64Range(1, 4e18).Draw(t, "time")
		}
		c.Entries = append(c.Entries, e)
		total += e.DataLen + 32
		sizes = append(sizes, e.DataLen+32)
	}
	bb := []int{-1, 0, 1, 1 << 30, math.MaxInt32, math.MaxInt}
	if n > 0 {
		bb = append(bb, sizes[0]-1, sizes[0], sizes[0]+1, total-1, total, total+1)
		if n > 2 {
			k := sizes[0] + sizes[1]
			bb = append(bb, k-1, k, k+1, total/2, total/3)
		}
	}
	c.BatchBytes = rapid.SampledFrom(bb).Draw(t, "bb")
	if bulk && rapid.Bool().Draw(t, "bulkOneBatch") {
		c.BatchBytes = 1 << 30
	}
	c.Progress = rapid.SampledFrom([]string{"nil", "buffered", "unbuffered"}).Draw(t, "prog")
	if n > 0 && rapid.IntRange(0, 3).Draw(t, "docancel") == 0 {
		c.CancelAt = rapid.IntRange(1, n).Draw(t, "cancelAt")
		c.Deadline = rapid.Bool().Draw(t, "deadline")
	}
	c.SegSize = rapid.SampledFrom([]int{128, 4096, 1 << 20}).Draw(t, "seg")
	if bulk {
		c.SegSize = rapid.SampledFrom([]int{1 << 20, 4 << 20, 64 << 20}).Draw(t, "segbulk")
	}
	if c.CancelAt == 0 {
		switch rapid.IntRange(0, 9).Draw(t, "storeErr") {
		case 0:
			c.SrcErr = rapid.SampledFrom([]string{"first", "last", "get"}).Draw(t, "srcErr")
		case 1:
			c.DstErrAt = rapid.IntRange(1, 3).Draw(t, "dstErrAt")
		}
	}
	return c
}

type env struct {
	dirs []string
	cl   []func()
}

func (e *env) close() {
	for i := len(e.cl) - 1; i >= 0; i-- {
		e.cl[i]()
	}
	for _, d := range e.dirs {
		os.RemoveAll(d)
	}
}

func (e *env) mk(kind string, seg int) (fullStore, error) {
	switch kind {
	case "walsim":
		w, err := kit.Cfg{SegSize: seg, FS: simfs.New()}.Open()
		if err != nil {
			return nil, err
		}
		e.cl = append(e.cl, func() { w.Close() })
		return w, nil
	case "walreal":
		d, err := os.MkdirTemp("", "verif-migr-")
		if err != nil {
			return nil, err
		}
		e.dirs = append(e.dirs, d)
		w, err := kit.Cfg{SegSize: seg, Dir: d}.Open()
		if err != nil {
			return nil, err
		}
		e.cl = append(e.cl, func() { w.Close() })
		return w, nil
	case "inmem":
		return raft.NewInmemStore(), nil
	case "bolt1":
		d, err := os.MkdirTemp("", "verif-migr-")
		if err != nil {
			return nil, err
		}
		e.dirs = append(e.dirs, d)
		s, err := raftboltdb1.New(raftboltdb1.Options{Path: filepath.Join(d, "raft.db"), NoSync: true})
		if err != nil {
			return nil, err
		}
		e.cl = append(e.cl, func() { s.Close() })
		return s, nil
	case "bolt2":
		d, err := os.MkdirTemp("", "verif-migr-")
		if err != nil {
			return nil, err
		}
		e.dirs = append(e.dirs, d)
		s, err := raftboltdb2.New(raftboltdb2.Options{Path: filepath.Join(d, "raft.db"), NoSync: true})
		if err != nil {
			return nil, err
		}
		e.cl = append(e.cl, func() { s.Close() })
		return s, nil
	}
	return nil, fmt.Errorf("unknown store kind %q", kind)
}

// cancelSrc cancels the context during the k-th GetLog.
type cancelSrc struct {
	raft.LogStore
	k      int
	n      int
	cancel context.CancelFunc
}

var errInjected = errors.New("verif: injected store error")

// deadlineCtx ends with context.DeadlineExceeded when the harness says so.
type deadlineCtx struct {
	context.Context
	mu   sync.Mutex
	done chan struct{}
	err  error
}

func (d *deadlineCtx) expire() {
	d.mu.Lock()
	if d.err == nil {
		d.err = context.DeadlineExceeded
		close(d.done)
	}
	d.mu.Unlock()
}
func (d *deadlineCtx) Done() <-chan struct{} { return d.done }
func (d *deadlineCtx) Err() error {
	d.mu.Lock()
	defer d.mu.Unlock()
	return d.err
}
func (d *deadlineCtx) Deadline() (time.Time, bool) { return time.Unix(1, 0), true }

// failSrc fails one kind of call of the source store.
type failSrc struct {
	raft.LogStore
	what string
	gets int
}

func (f *failSrc) FirstIndex() (uint64, error) {
	if f.what == "first" {
		return 0, errInjected
	}
	return f.LogStore.FirstIndex()
}
func (f *failSrc) LastIndex() (uint64, error) {
	if f.what == "last" {
		return 0, errInjected
	}
	return f.LogStore.LastIndex()
}
func (f *failSrc) GetLog(i uint64, l *raft.Log) error {
	f.gets++
	if f.what == "get" && f.gets == 2 {
		return errInjected
	}
	return f.LogStore.GetLog(i, l)
}

// failDst fails the k-th StoreLogs of the destination.
type failDst struct {
	raft.LogStore
	k, n int
}

func (f *failDst) StoreLogs(l []*raft.Log) error {
	f.n++
	if f.n == f.k {
		return errInjected
	}
	return f.LogStore.StoreLogs(l)
}

func (c *cancelSrc) GetLog(i uint64, l *raft.Log) error {
	c.n++
	err := c.LogStore.GetLog(i, l)
	if c.k > 0 && c.n == c.k {
		c.cancel()
	}
	return err
}

// sameLog compares two logs read back from stores. Times are compared as
// instants only: stores other than the WAL do not keep the zone.
func sameLog(a, b *raft.Log) string {
	switch {
	case a.Index != b.Index:
		return fmt.Sprintf("Index %d != %d", a.Index, b.Index)
	case a.Term != b.Term:
		return fmt.Sprintf("Term %d != %d", a.Term, b.Term)
	case a.Type != b.Type:
		return fmt.Sprintf("Type %d != %d", a.Type, b.Type)
	case !bytes.Equal(a.Data, b.Data):
		return fmt.Sprintf("Data differs (len %d vs %d)", len(a.Data), len(b.Data))
	case !bytes.Equal(a.Extensions, b.Extensions):
		return fmt.Sprintf("Extensions differ (len %d vs %d)", len(a.Extensions), len(b.Extensions))
	case !a.AppendedAt.Equal(b.AppendedAt):
		return fmt.Sprintf("AppendedAt %v != %v", a.AppendedAt, b.AppendedAt)
	}
	return ""
}

func runCopy(c CopyCase) (res common.Result) {
	e := &env{}
	defer e.close()
	src, err := e.mk(c.Src, c.SegSize)
	if err != nil {
		res.Fail = common.Failf("harness", "src: %v", err)
		return
	}
	dst, err := e.mk(c.DstKind, c.SegSize)
	if err != nil {
		res.Fail = common.Failf("harness", "dst: %v", err)
		return
	}
	// populate the source in batches of 7
	var logs []*raft.Log
	for i, es := range c.Entries {
		logs = append(logs, es.Make(c.First+uint64(i), 0))
	}
	for i := 0; i < len(logs); i += 7 {
		j := i + 7
		if j > len(logs) {
			j = len(logs)
		}
		if err := src.StoreLogs(logs[i:j]); err != nil {
			res.Fail = common.Failf("harness", "populate source %s: %v", c.Src, err)
			return
		}
	}
	sFirst, _ := src.FirstIndex()
	sLast, _ := src.LastIndex()
	// what the source returns is the ground truth for the copy
	srcLogs := map[uint64]*raft.Log{}
	for i := sFirst; i <= sLast && sLast > 0; i++ {
		l := new(raft.Log)
		if err := src.GetLog(i, l); err != nil {
			res.Fail = common.Failf("harness", "source GetLog(%d): %v", i, err)
			return
		}
		srcLogs[i] = l
	}

	ctx, cancel := context.WithCancel(context.Background())
	defer cancel()
	wantCtxErr := context.Canceled
	if c.Deadline {
		// a context that ends by deadline: driven by the harness, not by the clock
		dc := &deadlineCtx{Context: context.Background(), done: make(chan struct{})}
		ctx, cancel = dc, dc.expire
		wantCtxErr = context.DeadlineExceeded
	}
	var from raft.LogStore = src
	if c.CancelAt > 0 {
		from = &cancelSrc{LogStore: src, k: c.CancelAt, cancel: cancel}
	}
	var to raft.LogStore = dst
	if c.SrcErr != "" {
		from = &failSrc{LogStore: src, what: c.SrcErr}
	}
	fd := &failDst{LogStore: dst, k: c.DstErrAt}
	if c.DstErrAt > 0 {
		to = fd
	}
	var progress chan string
	switch c.Progress {
	case "buffered":
		progress = make(chan string, 4096)
	case "unbuffered":
		progress = make(chan string)
	}
	cerr := migrate.CopyLogs(ctx, to, from, c.BatchBytes, progress)

	// progress channel must be closed on return
	if progress != nil {
		if c.Progress == "buffered" {
			// CopyLogs has returned, so nothing sends any more: whatever is buffered is drained
			// without blocking, and then the channel must report closed - decided on the spot,
			// never by waiting (an unclosed channel used to show only as a timeout)
			for open := true; open; {
				select {
				case _, ok := <-progress:
					open = ok
				default:
					res.Fail = common.Failf("progress-not-closed", "progress channel (buffered, drained after return) not closed when CopyLogs returned (err=%v): a consumer ranging over it never finishes", cerr)
					return
				}
			}
		} else {
			select {
			case _, ok := <-progress:
				if ok {
					res.Fail = common.Failf("progress-not-closed", "progress channel delivered a value after CopyLogs returned")
					return
				}
			default:
				res.Fail = common.Failf("progress-not-closed", "progress channel not closed when CopyLogs returned (err=%v)", cerr)
				return
			}
		}
	}

	dFirst, err1 := dst.FirstIndex()
	dLast, err2 := dst.LastIndex()
	if err1 != nil || err2 != nil {
		res.Fail = common.Failf("dst-bounds-err", "%v %v", err1, err2)
		return
	}
	n := len(c.Entries)
	cancelled := c.CancelAt > 0 && c.CancelAt < n // cancelling during the last GetLog may or may not be noticed
	fs, _ := from.(*failSrc)
	storeFailed := c.SrcErr == "first" || c.SrcErr == "last" || (fs != nil && c.SrcErr == "get" && fs.gets >= 2) || (c.DstErrAt > 0 && fd.n >= fd.k)
	if storeFailed {
		// a store error is passed on (never swallowed), and what was copied so far is a prefix
		res.Classes = append(res.Classes, "store-error:"+c.SrcErr+fmt.Sprint(c.DstErrAt))
		res.NonTrivial = true
		if cerr == nil {
			res.Fail = common.Failf("store-error-swallowed", "the %s store failed a call (srcerr=%q dsterr=%d) but CopyLogs returned nil", map[bool]string{true: "source", false: "destination"}[c.SrcErr != ""], c.SrcErr, c.DstErrAt)
			return
		}
		if dLast != 0 && (dFirst != sFirst || dLast > sLast) {
			res.Fail = common.Failf("error-not-prefix", "after a store error destination [%d,%d] is not a prefix of source [%d,%d]", dFirst, dLast, sFirst, sLast)
			return
		}
	} else if c.CancelAt == 0 {
		if cerr != nil {
			sig := "copy-err"
			if n == 0 {
				sig = "copy-empty-err"
			}
			res.Fail = common.Failf(sig, "CopyLogs(%s -> %s, %d entries from %d, batchBytes=%d) = %v", c.Src, c.DstKind, n, c.First, c.BatchBytes, cerr)
			return
		}
		if dFirst != sFirst || dLast != sLast {
			res.Fail = common.Failf("copy-bounds", "destination [%d,%d] != source [%d,%d] (batchBytes=%d)", dFirst, dLast, sFirst, sLast, c.BatchBytes)
			return
		}
	} else {
		if cancelled && !errors.Is(cerr, wantCtxErr) {
			res.Fail = common.Failf("cancel-wrong-err", "context ended (%v) during GetLog #%d of %d but CopyLogs returned %v", wantCtxErr, c.CancelAt, n, cerr)
			return
		}
		if cerr != nil && !errors.Is(cerr, wantCtxErr) {
			res.Fail = common.Failf("cancel-wrong-err", "CopyLogs returned %v", cerr)
			return
		}
		// prefix
		if dLast != 0 && (dFirst != sFirst || dLast > sLast) {
			res.Fail = common.Failf("cancel-not-prefix", "after cancellation destination [%d,%d] is not a prefix of source [%d,%d]", dFirst, dLast, sFirst, sLast)
			return
		}
		if cerr == nil && (dFirst != sFirst || dLast != sLast) {
			res.Fail = common.Failf("copy-bounds", "CopyLogs returned nil but destination [%d,%d] != source [%d,%d]", dFirst, dLast, sFirst, sLast)
			return
		}
	}
	for i := dFirst; i <= dLast && dLast > 0; i++ {
		var got raft.Log
		if err := dst.GetLog(i, &got); err != nil {
			res.Fail = common.Failf("copy-missing", "destination GetLog(%d) = %v (dst [%d,%d])", i, err, dFirst, dLast)
			return
		}
		want, ok := srcLogs[i]
		if !ok {
			res.Fail = common.Failf("copy-extra", "destination has index %d which the source lacks", i)
			return
		}
		if d := sameLog(want, &got); d != "" {
			res.Fail = common.Failf("copy-content", "entry %d differs after copy (%s -> %s, batchBytes=%d): %s", i, c.Src, c.DstKind, c.BatchBytes, d)
			return
		}
	}
	// classes
	res.Classes = append(res.Classes, "pair:"+c.Src+">"+c.DstKind)
	if n == 0 {
		res.Classes = append(res.Classes, "empty-source")
		res.NonTrivial = true
	}
	if c.CancelAt > 0 && c.CancelAt < n {
		res.Classes = append(res.Classes, "cancel-inside")
		if c.Deadline {
			res.Classes = append(res.Classes, "deadline-inside")
		}
		res.NonTrivial = true
	}
	if n >= 2 && c.CancelAt == 0 {
		// count batches as CopyLogs would form them
		batches, sz, rem := 0, 0, 0
		for _, es := range c.Entries {
			sz += es.DataLen + 32
			rem++
			if sz >= c.BatchBytes {
				batches++
				sz, rem = 0, 0
			}
		}
		if batches >= 1 && rem > 0 {
			res.Classes = append(res.Classes, "split-with-remainder")
			res.NonTrivial = true
		}
	}
	if c.First != 1 {
		res.Classes = append(res.Classes, "first-not-1")
	}
	tot := 0
	for _, es := range c.Entries {
		tot += es.DataLen
	}
	if tot > 1<<20 {
		res.Classes = append(res.Classes, "source-larger-than-1MiB")
		res.NonTrivial = true
		if c.BatchBytes >= tot {
			res.Classes = append(res.Classes, "one-batch-larger-than-1MiB")
		}
	}
	return
}

func TestC19CopyLogs(t *testing.T) {
	common.Run(t, "C19", "C19CopyLogs", genCopyCase, runCopy)
}

// ---- CopyStable

type StableCase struct {
	Src      string            `json:"src"`
	DstKind  string            `json:"dst"`
	Ints     map[string]uint64 `json:"ints"`  // set int keys (standard + extra)
	Bytes    map[string][]byte `json:"bytes"` // set byte keys
	ExtraInt []string          `json:"xi"`
	ExtraKey []string          `json:"xk"`
	Cancel   bool              `json:"cancel"`
	Progress string            `json:"prog"`
	// DstStale: the destination already holds other (non-zero) values for every listed key
	DstStale bool `json:"dstStale,omitempty"`
	// Collide: the same name is listed as an extra int key and as an extra regular key (and a
	// standard int key's name as an extra regular key). Only between stores that keep Set and
	// SetUint64 values apart (InmemStore), where both views of the name are independent values.
	Collide bool `json:"collide,omitempty"`
}

func genStableCase(t *rapid.T) StableCase {
	c := StableCase{Ints: map[string]uint64{}, Bytes: map[string][]byte{}}
	c.Src = rapid.SampledFrom(storeKinds).Draw(t, "src")
	c.DstKind = rapid.SampledFrom(storeKinds).Draw(t, "dst")
	for _, k := range []string{"CurrentTerm", "LastVoteTerm"} {
		if rapid.IntRange(0, 3).Draw(t, "set"+k) > 0 {
			c.Ints[k] = rapid.SampledFrom([]uint64{0, 1, 7, 1 << 32, ^uint64(0)}).Draw(t, "v"+k)
		}
	}
	if rapid.IntRange(0, 3).Draw(t, "setcand") > 0 {
		c.Bytes["LastVoteCand"] = rapid.SliceOfN(rapid.Byte(), 0, 20).Draw(t, "cand")
	}
	for i := 0; i < rapid.IntRange(0, 3).Draw(t, "nxi"); i++ {
		k := fmt.Sprintf("xi%d", i)
		c.ExtraInt = append(c.ExtraInt, k)
		if rapid.IntRange(0, 3).Draw(t, "setxi") > 0 {
			c.Ints[k] = rapid.Uint64().Draw(t, "vxi")
		}
	}
	for i := 0; i < rapid.IntRange(0, 3).Draw(t, "nxk"); i++ {
		k := fmt.Sprintf("xk%d\x00", i)
		c.ExtraKey = append(c.ExtraKey, k)
		if rapid.IntRange(0, 3).Draw(t, "setxk") > 0 {
			c.Bytes[k] = rapid.SliceOfN(rapid.Byte(), 0, 64).Draw(t, "vxk")
		}
	}
	c.Cancel = rapid.IntRange(0, 5).Draw(t, "cancel") == 0
	c.Progress = rapid.SampledFrom([]string{"nil", "unbuffered"}).Draw(t, "prog")
	c.DstStale = rapid.IntRange(0, 3).Draw(t, "dstStale") == 0
	if rapid.IntRange(0, 5).Draw(t, "collide") == 0 {
		c.Collide = true
		c.Src, c.DstKind = "inmem", "inmem"
		c.ExtraInt = append(c.ExtraInt, "both")
		c.ExtraKey = append(c.ExtraKey, "both")
		c.Ints["both"] = rapid.Uint64Range(1, 1<<40).Draw(t, "vbothInt")
		c.Bytes["both"] = rapid.SliceOfN(rapid.Byte(), 1, 30).Draw(t, "vbothKey")
		if rapid.Bool().Draw(t, "termAsKey") {
			c.ExtraKey = append(c.ExtraKey, "CurrentTerm")
			c.Bytes["CurrentTerm"] = rapid.SliceOfN(rapid.Byte(), 1, 30).Draw(t, "vtermKey")
		}
	}
	return c
}

// errLog records errors returned by the wrapped store so that a CopyStable
// error can be attributed to a store (pass-through) rather than to CopyStable.
type errLog struct {
	raft.StableStore
	errs *[]error
}

func (e errLog) Get(k []byte) ([]byte, error) {
	v, err := e.StableStore.Get(k)
	if err != nil {
		*e.errs = append(*e.errs, err)
	}
	return v, err
}
func (e errLog) GetUint64(k []byte) (uint64, error) {
	v, err := e.StableStore.GetUint64(k)
	if err != nil {
		*e.errs = append(*e.errs, err)
	}
	return v, err
}
func (e errLog) Set(k, v []byte) error {
	err := e.StableStore.Set(k, v)
	if err != nil {
		*e.errs = append(*e.errs, err)
	}
	return err
}
func (e errLog) SetUint64(k []byte, v uint64) error {
	err := e.StableStore.SetUint64(k, v)
	if err != nil {
		*e.errs = append(*e.errs, err)
	}
	return err
}

func runStable(c StableCase) (res common.Result) {
	e := &env{}
	defer e.close()
	src, err := e.mk(c.Src, 4096)
	if err != nil {
		res.Fail = common.Failf("harness", "src: %v", err)
		return
	}
	dst, err := e.mk(c.DstKind, 4096)
	if err != nil {
		res.Fail = common.Failf("harness", "dst: %v", err)
		return
	}
	for k, v := range c.Ints {
		if err := src.SetUint64([]byte(k), v); err != nil {
			res.Fail = common.Failf("harness", "populate: %v", err)
			return
		}
	}
	for k, v := range c.Bytes {
		if err := src.Set([]byte(k), v); err != nil {
			res.Fail = common.Failf("harness", "populate: %v", err)
			return
		}
	}
	if c.DstStale {
		for _, k := range append([]string{"CurrentTerm", "LastVoteTerm"}, c.ExtraInt...) {
			if err := dst.SetUint64([]byte(k), 0xdead0000+uint64(len(k))); err != nil {
				res.Fail = common.Failf("harness", "pre-populate destination: %v", err)
				return
			}
		}
		for _, k := range append([]string{"LastVoteCand"}, c.ExtraKey...) {
			if err := dst.Set([]byte(k), []byte("stale-"+k)); err != nil {
				res.Fail = common.Failf("harness", "pre-populate destination: %v", err)
				return
			}
		}
	}
	ctx, cancel := context.WithCancel(context.Background())
	defer cancel()
	if c.Cancel {
		cancel()
	}
	var storeErrs []error
	var progress chan string
	if c.Progress == "unbuffered" {
		progress = make(chan string)
	}
	var xi, xk [][]byte
	for _, k := range c.ExtraInt {
		xi = append(xi, []byte(k))
	}
	for _, k := range c.ExtraKey {
		xk = append(xk, []byte(k))
	}
	cerr := migrate.CopyStable(ctx, errLog{dst, &storeErrs}, errLog{src, &storeErrs}, xk, xi, progress)
	if progress != nil {
		select {
		case _, ok := <-progress:
			if ok {
				res.Fail = common.Failf("progress-not-closed", "progress delivered after return")
				return
			}
		default:
			res.Fail = common.Failf("progress-not-closed", "CopyStable returned (err=%v) without closing the progress channel", cerr)
			return
		}
	}
	if cerr != nil {
		if c.Cancel && errors.Is(cerr, context.Canceled) {
			res.Classes = append(res.Classes, "cancelled")
			res.NonTrivial = true
			return
		}
		for _, se := range storeErrs {
			if errors.Is(cerr, se) {
				res.Classes = append(res.Classes, "store-error-passthrough")
				return
			}
		}
		res.Fail = common.Failf("copystable-err", "CopyStable(%s -> %s) = %v, which wraps no error returned by either store", c.Src, c.DstKind, cerr)
		return
	}
	if c.Cancel {
		res.Fail = common.Failf("cancel-ignored", "CopyStable with an already cancelled context returned nil")
		return
	}
	norm := func(s raft.StableStore, k string) []byte {
		v, err := s.Get([]byte(k))
		if err != nil {
			return nil
		}
		return v
	}
	for _, k := range append([]string{"CurrentTerm", "LastVoteTerm"}, c.ExtraInt...) {
		a, aerr := src.GetUint64([]byte(k))
		b, berr := dst.GetUint64([]byte(k))
		if a != b {
			res.Fail = common.Failf("stable-int-differs", "int key %q: source %d destination %d (%s -> %s)", k, a, b, c.Src, c.DstKind)
			return
		}
		if aerr == nil && berr != nil {
			// CopyStable read this key from the source without an error (value %d), so it must be there afterwards
			res.Fail = common.Failf("stable-int-missing", "int key %q: the source answers %d, the destination %v after CopyStable returned nil (%s -> %s)", k, a, berr, c.Src, c.DstKind)
			return
		}
		if a == 0 && aerr == nil {
			res.Classes = append(res.Classes, "zero-valued-key")
		}
	}
	for _, k := range append([]string{"LastVoteCand"}, c.ExtraKey...) {
		a, b := norm(src, k), norm(dst, k)
		if !bytes.Equal(a, b) {
			res.Fail = common.Failf("stable-key-differs", "key %q: source %x destination %x (%s -> %s)", k, a, b, c.Src, c.DstKind)
			return
		}
	}
	res.NonTrivial = len(c.Ints)+len(c.Bytes) > 0
	res.Classes = append(res.Classes, "stable-copied", "pair:"+c.Src+">"+c.DstKind)
	if c.DstStale {
		res.Classes = append(res.Classes, "destination-held-stale-values")
	}
	if c.Collide {
		res.Classes = append(res.Classes, "name-listed-as-int-and-regular-key")
	}
	if len(c.ExtraInt)+len(c.ExtraKey) > 0 {
		res.Classes = append(res.Classes, "extra-keys")
	}
	return
}

func TestC19CopyStable(t *testing.T) {
	common.Run(t, "C19", "C19CopyStable", genStableCase, runStable)
}
