package fault

import (
	"encoding/binary"

	"verifharness/common"
	"verifharness/refmodel"
	"verifharness/simfs"
)

// formatVerdict is C09 along failure paths: after a history with injected I/O
// errors (all cleared, WAL reopened twice and closed) every segment listed in
// the metadata must still be readable by the decoder written from the README
// alone. Stale bytes after the last good commit are tolerated (failed calls
// may leave them); what is demanded is a lower bound: walking the file from
// the header, commit by commit with every CRC checked, the decoder recovers at
// least the entries the metadata and the acknowledged history place in that
// segment, with the acknowledged content; and a sealed segment's IndexStart
// addresses an index frame whose offsets address those entry frames.
func formatVerdict(fs *simfs.FS, m *refmodel.LogModel) *common.Failure {
	st, ok := fs.MetaState()
	if !ok {
		return nil
	}
	for i, si := range st.Segments {
		name := refmodel.FileName(si.BaseIndex, si.ID)
		sealed := !si.SealTime.IsZero()
		var hi uint64
		switch {
		case sealed:
			hi = si.MaxIndex
		case !m.Empty() && i == len(st.Segments)-1:
			hi = m.Last
		}
		if hi < si.BaseIndex || hi == 0 {
			continue // holds nothing that anybody may read
		}
		need := int(hi - si.BaseIndex + 1)
		b, ok := fs.ReadFile(name)
		if !ok {
			return common.Failf("after-faults/file-missing", "metadata lists %s [%d..%d] but the file does not exist", name, si.MinIndex, hi)
		}
		h, groups, committed, derr := refmodel.DecodeSegment(b)
		var payloads [][]byte
		var offsets []uint32
		for _, g := range groups {
			payloads = append(payloads, g.Entries...)
			offsets = append(offsets, g.EntryOffsets...)
		}
		// "Index frames are written only when the segment is sealed and a commit frame follows": the
		// committed chain of a file holds at most one, and then in its last batch
		nIdx, lastIdxGroup := 0, -1
		for gi, g := range groups {
			if g.HasIndex {
				nIdx++
				lastIdxGroup = gi
			}
		}
		if nIdx > 1 || (nIdx == 1 && sealed && lastIdxGroup != len(groups)-1) {
			var at []int
			for _, g := range groups {
				if g.HasIndex {
					at = append(at, g.IndexOffset)
				}
			}
			return common.Failf("after-faults/index-frames", "%s (sealed=%v): the committed chain holds %d index frame(s) at offsets %v in %d batches; the format allows one, in the final batch of a sealed segment", name, sealed, nIdx, at, len(groups))
		}
		if len(payloads) < need {
			return common.Failf("after-faults/independent-decoder-short", "%s must hold entries %d..%d (%d entries; sealed=%v) but a decoder following the README recovers only %d up to offset %d and then stops: %v", name, si.BaseIndex, hi, need, sealed, len(payloads), committed, derr)
		}
		if h.BaseIndex != si.BaseIndex || h.ID != si.ID || h.Codec != si.Codec {
			return common.Failf("after-faults/header", "%s: header %+v disagrees with metadata {Base:%d ID:%d Codec:%d}", name, h, si.BaseIndex, si.ID, si.Codec)
		}
		for idx := si.MinIndex; idx <= hi; idx++ {
			want, ok := m.Get(idx)
			if !ok {
				continue
			}
			got, err := refmodel.DecodeLog(payloads[idx-si.BaseIndex])
			if err != nil {
				return common.Failf("after-faults/entry-undecodable", "%s: entry frame #%d (index %d) does not decode per the README: %v", name, idx-si.BaseIndex, idx, err)
			}
			if d := refmodel.Diff(want, got); d != "" {
				return common.Failf("after-faults/entry-content", "%s: entry frame #%d holds something else than the acknowledged entry %d: %s", name, idx-si.BaseIndex, idx, d)
			}
		}
		if sealed {
			is := int(si.IndexStart)
			if is < refmodel.HeaderLen+refmodel.FrameHdrLen || is > len(b) {
				return common.Failf("after-faults/indexstart", "%s is sealed with IndexStart=%d outside the file (len %d)", name, is, len(b))
			}
			fh := b[is-refmodel.FrameHdrLen : is]
			n := int(binary.LittleEndian.Uint32(fh[4:8]))
			if fh[0] != refmodel.TypeIndex || n%4 != 0 || is+n > len(b) {
				return common.Failf("after-faults/indexstart", "%s: metadata IndexStart=%d is not the payload of an index frame (frame header there: %x)", name, is, fh)
			}
			if n/4 < need {
				return common.Failf("after-faults/index-short", "%s: the index at IndexStart=%d has %d offsets, the segment's range %d..%d needs %d", name, is, n/4, si.BaseIndex, hi, need)
			}
			for k := 0; k < need; k++ {
				if o := binary.LittleEndian.Uint32(b[is+4*k:]); o != offsets[k] {
					return common.Failf("after-faults/index-offset", "%s: index[%d]=%d but entry frame %d is at offset %d", name, k, o, k, offsets[k])
				}
			}
		}
	}
	return nil
}
