// Package fault is the I/O fault-injection engine (C10): every individual
// VFS/MetaStore call of a generated workload is made to fail, transiently or
// persistently, and acknowledged data must survive in process and after reopen.
package fault

import (
	"errors"
	"fmt"
	"io"
	"os"
	"strings"
	"sync"
	"syscall"
	"testing"

	"github.com/hashicorp/raft"
	wal "github.com/hashicorp/raft-wal"
	"pgregory.net/rapid"

	"verifharness/common"
	"verifharness/kit"
	"verifharness/refmodel"
	"verifharness/simfs"
)

func TestMain(m *testing.M) { common.Main(m) }

var errInjected = errors.New("injected I/O error")

type Fault struct {
	Kind    string `json:"kind"`         // simfs.Kind
	Sel     int    `json:"sel"`          // ordinal selector, resolved modulo the number of such calls in a fault-free run
	Mode    string `json:"mode"`         // transient, persistent
	Partial int    `json:"partial"`      // WriteAt: bytes applied before failing (0 = none)
	Op      int    `json:"op,omitempty"` // i>0: Sel counts only the calls made during op #i-1 (falls back to the whole run if that op makes none)
	// Plus is added to the resolved ordinal: with an aimed fault it reaches calls that exist only in the
	// faulted run (the roll-back CommitState that follows a failed segment creation is that op's commit + 1)
	Plus int `json:"plus,omitempty"`
	// Err: the error value the failing call returns ("" = a plain error; eof = io.EOF, as a file
	// that cannot grow reports a short write; shortwrite = io.ErrShortWrite; enospc = ENOSPC wrapped
	// in a PathError). Whatever the value, a WriteAt that wrote less than it was given has failed.
	Err string `json:"err,omitempty"`
}

var faultErrs = []string{"", "", "eof", "eof", "shortwrite", "enospc"}

func faultErr(kind string) error {
	switch kind {
	case "eof":
		return io.EOF
	case "shortwrite":
		return io.ErrShortWrite
	case "enospc":
		return &os.PathError{Op: "write", Path: "segment", Err: syscall.ENOSPC}
	}
	return errInjected
}

type FOp struct {
	K       string          `json:"k"` // append, del, reopen, set, retry
	Entries []kit.EntrySpec `json:"e,omitempty"`
	Start   uint64          `json:"start,omitempty"`
	Rel     string          `json:"rel,omitempty"` // del: head, tail, all, headseg
	A       int             `json:"a,omitempty"`
}

type Case struct {
	SegSize int     `json:"seg"`
	Ops     []FOp   `json:"ops"`
	Faults  []Fault `json:"faults"`
	// EndCrash: "" = the history ends with a clean Close; "none"/"all" = it ends with a power loss
	// (no call in flight) in which none/all of the still un-synced bytes reach the disk
	EndCrash string `json:"endCrash,omitempty"`
}

var faultKinds = []simfs.Kind{simfs.KWriteAt, simfs.KWriteAt, simfs.KSyncFile, simfs.KSyncFile, simfs.KSyncDir, simfs.KCreate, simfs.KCreate, simfs.KUnlink,
	simfs.KCommitState, simfs.KCommitState, simfs.KSetStable, simfs.KListDir, simfs.KOpenReader, simfs.KOpenWriter, simfs.KLoad, simfs.KReadAt}

func genCase(t *rapid.T) Case {
	tpl := rapid.IntRange(0, 99).Draw(t, "template")
	if tpl < 35 {
		return genTruncCase(t)
	}
	if tpl < 38 {
		return genHugeCase(t)
	}
	c := Case{SegSize: rapid.SampledFrom([]int{1, 64, 128, 256, 512}).Draw(t, "seg")}
	n := rapid.IntRange(3, 14).Draw(t, "nops")
	for i := 0; i < n; i++ {
		k := rapid.IntRange(0, 99).Draw(t, "k")
		switch {
		case k < 50:
			op := FOp{K: "append", Start: rapid.SampledFrom([]uint64{1, 1, 3, 100, refmodel.StartCont, refmodel.StartCont}).Draw(t, "start")}
			m := rapid.IntRange(1, 4).Draw(t, "n")
			big := rapid.IntRange(0, 24).Draw(t, "bigBatch") == 0 // now and then a batch that overflows the 64 KiB commit buffer
			for j := 0; j < m; j++ {
				dl := rapid.SampledFrom([]int{0, 5, 30, 80, 200}).Draw(t, "dl")
				if big {
					dl = 30000 + dl
				}
				op.Entries = append(op.Entries, kit.EntrySpec{DataLen: dl, Seed: uint8(rapid.IntRange(0, 255).Draw(t, "seed"))})
			}
			c.Ops = append(c.Ops, op)
		case k < 75:
			c.Ops = append(c.Ops, FOp{K: "del", Rel: rapid.SampledFrom([]string{"head", "tail", "tail", "all", "head"}).Draw(t, "rel"), A: rapid.IntRange(0, 4).Draw(t, "a")})
		case k < 85:
			c.Ops = append(c.Ops, FOp{K: "reopen"})
		case k < 92:
			c.Ops = append(c.Ops, FOp{K: "set"})
		default:
			c.Ops = append(c.Ops, FOp{K: "retry"})
		}
	}
	nf := rapid.SampledFrom([]int{1, 1, 1, 2}).Draw(t, "nfaults")
	for i := 0; i < nf; i++ {
		f := Fault{Kind: string(rapid.SampledFrom(faultKinds).Draw(t, "fkind")), Sel: rapid.IntRange(0, 400).Draw(t, "fsel"),
			Mode: rapid.SampledFrom([]string{"transient", "transient", "persistent"}).Draw(t, "fmode")}
		if f.Kind == string(simfs.KWriteAt) {
			f.Partial = rapid.SampledFrom([]int{0, 0, 8, 16, 40, 1000}).Draw(t, "partial")
			f.Err = rapid.SampledFrom(faultErrs).Draw(t, "ferr")
		}
		if f.Kind == string(simfs.KCreate) && rapid.Bool().Draw(t, "createLeavesFile") {
			f.Partial = 1 // the failing Create leaves the (empty) file behind
		}
		c.Faults = append(c.Faults, f)
	}
	c.EndCrash = rapid.SampledFrom([]string{"", "", "", "none", "all"}).Draw(t, "endCrash")
	return c
}

// genTruncCase aims the fault at a truncation: a few small appends into one
// roomy tail segment, a DeleteRange (mostly a tail truncation ending inside the
// tail, which force-seals it), the same call retried, more appends, reopens -
// with the fault placed on one of the I/O calls of that DeleteRange itself.
// genHugeCase: one append of more than 1 MiB (far beyond the 64 KiB commit buffer), often the first
// commit into a fresh segment file, with the fault aimed at one of its own I/O calls; then the retry,
// more appends and the reopens.
func genHugeCase(t *rapid.T) Case {
	c := Case{SegSize: rapid.SampledFrom([]int{256, 4096, 1 << 20}).Draw(t, "seg")}
	small := func() FOp {
		op := FOp{K: "append", Start: 1}
		for j, m := 0, rapid.IntRange(1, 3).Draw(t, "n"); j < m; j++ {
			op.Entries = append(op.Entries, kit.EntrySpec{DataLen: rapid.SampledFrom([]int{0, 30, 200}).Draw(t, "dl"), Seed: uint8(rapid.IntRange(0, 255).Draw(t, "seed"))})
		}
		return op
	}
	for i, n := 0, rapid.IntRange(0, 2).Draw(t, "pre"); i < n; i++ {
		c.Ops = append(c.Ops, small())
	}
	target := len(c.Ops)
	huge := FOp{K: "append", Start: 1}
	for j, m := 0, rapid.IntRange(1, 2).Draw(t, "nhuge"); j < m; j++ {
		huge.Entries = append(huge.Entries, kit.EntrySpec{DataLen: (1 << 20) + rapid.SampledFrom([]int{1, 4096, 70000, 300000}).Draw(t, "extra"), Seed: uint8(rapid.IntRange(0, 255).Draw(t, "seed"))})
	}
	c.Ops = append(c.Ops, huge, FOp{K: "retry"})
	for i, n := 0, rapid.IntRange(0, 3).Draw(t, "post"); i < n; i++ {
		c.Ops = append(c.Ops, small())
	}
	f := Fault{Kind: string(rapid.SampledFrom([]simfs.Kind{simfs.KSyncFile, simfs.KSyncFile, simfs.KWriteAt, simfs.KSyncDir}).Draw(t, "fkind")),
		Sel: rapid.IntRange(0, 3).Draw(t, "fsel"), Mode: "transient", Op: target + 1}
	if f.Kind == string(simfs.KWriteAt) {
		f.Partial = rapid.SampledFrom([]int{0, 8, 70000, 1 << 20}).Draw(t, "partial")
		f.Err = rapid.SampledFrom(faultErrs).Draw(t, "ferr")
	}
	c.Faults = []Fault{f}
	return c
}

func genTruncCase(t *rapid.T) Case {
	c := Case{SegSize: rapid.SampledFrom([]int{256, 512, 4096}).Draw(t, "seg")}
	app := func() FOp {
		op := FOp{K: "append", Start: rapid.SampledFrom([]uint64{1, 1, 100, refmodel.StartCont}).Draw(t, "start")}
		for j, m := 0, rapid.IntRange(1, 3).Draw(t, "n"); j < m; j++ {
			op.Entries = append(op.Entries, kit.EntrySpec{DataLen: rapid.SampledFrom([]int{0, 5, 30, 80}).Draw(t, "dl"), Seed: uint8(rapid.IntRange(0, 255).Draw(t, "seed"))})
		}
		return op
	}
	for i, n := 0, rapid.IntRange(1, 4).Draw(t, "pre"); i < n; i++ {
		c.Ops = append(c.Ops, app())
	}
	if rapid.IntRange(0, 3).Draw(t, "preReopen") == 0 {
		c.Ops = append(c.Ops, FOp{K: "reopen"})
	}
	target := len(c.Ops)
	c.Ops = append(c.Ops, FOp{K: "del", Rel: rapid.SampledFrom([]string{"tail", "tail", "tail", "head", "all"}).Draw(t, "rel"), A: rapid.IntRange(0, 2).Draw(t, "a")})
	if rapid.IntRange(0, 3).Draw(t, "doRetry") > 0 {
		c.Ops = append(c.Ops, FOp{K: "retry"})
	}
	for i, n := 0, rapid.IntRange(0, 3).Draw(t, "post"); i < n; i++ {
		switch rapid.IntRange(0, 5).Draw(t, "postk") {
		case 0:
			c.Ops = append(c.Ops, FOp{K: "reopen"})
		case 1:
			c.Ops = append(c.Ops, FOp{K: "del", Rel: rapid.SampledFrom([]string{"tail", "head"}).Draw(t, "rel2"), A: rapid.IntRange(0, 2).Draw(t, "a2")})
		default:
			c.Ops = append(c.Ops, app())
		}
	}
	f := Fault{Kind: string(rapid.SampledFrom([]simfs.Kind{simfs.KWriteAt, simfs.KSyncFile, simfs.KSyncFile, simfs.KCommitState, simfs.KCreate, simfs.KSyncDir, simfs.KUnlink}).Draw(t, "fkind")),
		Sel: rapid.IntRange(0, 7).Draw(t, "fsel"), Mode: rapid.SampledFrom([]string{"transient", "transient", "transient", "persistent"}).Draw(t, "fmode"), Op: target + 1}
	if f.Kind == string(simfs.KWriteAt) {
		f.Partial = rapid.SampledFrom([]int{0, 0, 8, 16, 1000}).Draw(t, "partial")
		f.Err = rapid.SampledFrom(faultErrs).Draw(t, "ferr")
	}
	c.Faults = []Fault{f}
	if rapid.IntRange(0, 5).Draw(t, "doubleFault") == 0 {
		// the disk-full pattern: the new segment's creation fails after the metadata commit, and the commit
		// that should roll the metadata back fails too; the WAL must then refuse writes, not lose them
		c.Faults = []Fault{
			{Kind: string(simfs.KCreate), Sel: 0, Mode: "transient", Op: target + 1, Partial: rapid.IntRange(0, 1).Draw(t, "leaveFile")},
			{Kind: string(simfs.KCommitState), Sel: 0, Mode: rapid.SampledFrom([]string{"transient", "persistent"}).Draw(t, "rbMode"), Op: target + 1, Plus: 1},
		}
	}
	c.EndCrash = rapid.SampledFrom([]string{"", "", "", "none", "all"}).Draw(t, "endCrash")
	return c
}

// injector implements the fault plan as a simfs hook.
type injector struct {
	mu     sync.Mutex
	plan   []resolved
	healed bool
	hits   int
	// inOpen: an Open is in progress. Read faults are injected only then (recovery reading the
	// files): a GetLog that fails on an injected read error says nothing about the property, an
	// Open that reads past one and presents a shortened log does.
	inOpen   bool
	openRead int // ReadAt calls seen during Opens (the ordinal space of ReadAt faults)
}

type resolved struct {
	kind    simfs.Kind
	ord     int
	mode    string
	partial int
	active  bool // persistent fault switched on
	err     error
}

func (in *injector) hook(ev simfs.Event) (int, error) {
	in.mu.Lock()
	defer in.mu.Unlock()
	if in.healed {
		return -1, nil
	}
	ord := ev.Ord
	if ev.Kind == simfs.KReadAt {
		if !in.inOpen {
			return -1, nil
		}
		in.openRead++
		ord = in.openRead
	}
	for i := range in.plan {
		p := &in.plan[i]
		if p.kind != ev.Kind {
			continue
		}
		if ord == p.ord || (p.active && ord > p.ord) {
			if p.mode == "persistent" {
				p.active = true
			}
			in.hits++
			e := p.err
			if e == nil {
				e = errInjected
			}
			if p.partial > 0 {
				return p.partial, e
			}
			return -1, e
		}
	}
	return -1, nil
}

func (in *injector) heal() {
	in.mu.Lock()
	in.healed = true
	in.mu.Unlock()
}

// histOp is what happened since the last successful (re)open, for computing the allowed post-reopen states.
type histOp struct {
	kind     string // append, del
	logs     []*raft.Log
	min, max uint64
	ok       bool
	head     bool // del only: a head truncation (metadata only; leaves the tail file alone)
}

// candidatesAfterReopen folds the history: acknowledged ops are applied; each
// failed mutating op is either applied in full or not at all; a candidate in
// which an acknowledged append would not be contiguous is impossible.
func candidatesAfterReopen(base *refmodel.LogModel, hist []histOp) []*refmodel.LogModel {
	cands := []*refmodel.LogModel{base.Clone()}
	for _, h := range hist {
		var next []*refmodel.LogModel
		for _, c := range cands {
			switch {
			case h.kind == "append" && h.ok:
				if c.ValidAppend(h.logs) {
					d := c.Clone()
					d.Append(h.logs)
					next = append(next, d)
				}
			case h.kind == "append" && !h.ok:
				next = append(next, c)
				if c.ValidAppend(h.logs) {
					d := c.Clone()
					d.Append(h.logs)
					next = append(next, d)
				}
			case h.kind == "del" && h.ok:
				d := c.Clone()
				if d.Delete(h.min, h.max) {
					next = append(next, d)
				}
			case h.kind == "del" && !h.ok:
				next = append(next, c)
				d := c.Clone()
				if d.Delete(h.min, h.max) {
					next = append(next, d)
				}
			}
		}
		if len(next) > 64 {
			next = next[:64]
		}
		cands = next
	}
	return cands
}

func onlyAcked(h []histOp) []histOp {
	var out []histOp
	for _, x := range h {
		if x.ok {
			out = append(out, x)
		}
	}
	return out
}

func sameModel(a, b *refmodel.LogModel) bool {
	if a.First != b.First || a.Last != b.Last {
		return false
	}
	for i := a.First; i <= a.Last && a.Last > 0; i++ {
		x, _ := a.Get(i)
		y, _ := b.Get(i)
		if x == nil || y == nil || refmodel.Diff(x, y) != "" {
			return false
		}
	}
	return true
}

type env struct {
	c      Case
	fs     *simfs.FS
	w      *wal.WAL
	m      *refmodel.LogModel // in-process model
	base   *refmodel.LogModel // model as of the last successful open
	hist   []histOp
	linger []histOp // failed appends from before the last reopen whose bytes may still be in the tail file
	stable map[string][]byte
	gen    uint8
	// bookkeeping
	failedCalls    int
	okAfterFailure int
	lastFailed     *FOp
	lastLogs       []*raft.Log
	lastMin        uint64
	lastMax        uint64
	cls            map[string]bool
	in             *injector
	dryOpenReads   int                  // fault-free pass: ReadAt calls made inside Opens
	opCounts       []map[simfs.Kind]int // fault-free pass: calls per kind made before op #i (one more entry for the end)
	ledger         *common.Failure
	format         *common.Failure // C09 along failure paths
}

func (e *env) open() error {
	if e.in != nil {
		e.in.mu.Lock()
		e.in.inOpen = true
		e.in.mu.Unlock()
		defer func() {
			e.in.mu.Lock()
			e.in.inOpen = false
			e.in.mu.Unlock()
		}()
	} else {
		e.dryOpenReads -= e.fs.Counts()[simfs.KReadAt]
		defer func() { e.dryOpenReads += e.fs.Counts()[simfs.KReadAt] }()
	}
	w, err := kit.Cfg{SegSize: e.c.SegSize, FS: e.fs}.Open()
	if err != nil {
		return err
	}
	e.w = w
	return nil
}

// inProcessCheck: acknowledged entries readable, failed appends invisible.
func (e *env) inProcessCheck(step int, what string) *common.Failure {
	if e.w == nil {
		return nil
	}
	if sig, msg := kit.CheckAgainst(e.w, e.m, nil); sig != "" {
		return common.Failf("inprocess/"+sig, "in process after step %d (%s): %s", step, what, msg)
	}
	return nil
}

func (e *env) resolveDel(op FOp) (uint64, uint64, bool) {
	if e.m.Empty() {
		return 0, 0, false
	}
	switch op.Rel {
	case "head":
		return e.m.First, e.m.First + uint64(op.A), true
	case "tail":
		return e.m.Last - uint64(op.A)%e.m.Len(), e.m.Last, true
	default:
		return e.m.First, e.m.Last, true
	}
}

// run executes the workload with the given hook (nil for the counting pass).
func (e *env) run(in *injector) *common.Failure {
	e.in = in
	if in != nil {
		e.fs.SetHook(in.hook)
	}
	if err := e.open(); err != nil {
		if in == nil {
			return common.Failf("harness", "fault-free open failed: %v", err)
		}
		e.cls["fault-in-first-open"] = true
		e.failedCalls++
	}
	reopen := func(step int) *common.Failure {
		if e.w != nil {
			e.w.Close()
			e.w = nil
		}
		err := e.open()
		if err != nil {
			if in != nil && in.hits > 0 {
				// Open hit a fault: heal and retry once, which must succeed.
				e.cls["fault-in-open"] = true
				e.failedCalls++
				in.heal()
				if err2 := e.open(); err2 != nil {
					return common.Failf("reopen-failed-after-heal", "step %d: Open failed (%v), and again after the fault was cleared: %v", step, err, err2)
				}
			} else {
				return common.Failf("reopen-failed", "step %d: Open = %v", step, err)
			}
		}
		// Failed appends whose bytes may still lie in the tail file linger across reopens: with
		// partial writes a later failed call can complete an older one byte for byte (stale bytes
		// are never wiped, cf. F-STALE), so an old failed call may be applied, in full, only at a
		// later reopen. The property allows "in full or not at all" without saying when.
		full := append(append([]histOp{}, e.linger...), e.hist...)
		cands := candidatesAfterReopen(e.base, full)
		plain := candidatesAfterReopen(e.base, onlyAcked(full))
		var firstMsg string
		for _, c := range cands {
			sig, msg := kit.CheckAgainst(e.w, c, nil)
			if sig == "" {
				appliedFailed := len(plain) == 0 || !sameModel(plain[0], c)
				lastAck := -1
				for i, h := range full {
					if h.ok && !h.head {
						lastAck = i // an acknowledged append or tail truncation rewrites the tail region
					}
				}
				var linger []histOp
				if !appliedFailed {
					for i, h := range full {
						if i > lastAck && !h.ok && h.kind == "append" {
							linger = append(linger, h)
						}
					}
				} else {
					e.cls["failed-call-applied-at-reopen"] = true
				}
				if len(linger) > 8 {
					linger = linger[len(linger)-8:]
				}
				e.linger = linger
				e.m = c.Clone()
				e.base = c.Clone()
				e.hist = nil
				return nil
			}
			if firstMsg == "" {
				firstMsg = msg
			}
		}
		f, _ := e.w.FirstIndex()
		l, _ := e.w.LastIndex()
		sig := "reopen-state"
		// is an acknowledged entry (by the in-process model) missing?
		if !e.m.Empty() {
			for i := e.m.First; i <= e.m.Last; i++ {
				want, _ := e.m.Get(i)
				var got raft.Log
				if err := e.w.GetLog(i, &got); err != nil || refmodel.Diff(want, &got) != "" {
					sig = "ack-lost-after-reopen"
					firstMsg = fmt.Sprintf("acknowledged entry %d: GetLog err=%v", i, err)
					break
				}
			}
		}
		return common.Failf(sig, "step %d: after reopen the WAL holds [%d,%d]; in-process model was [%d,%d]; %d allowed states, none matches (%s); history since last open: %s; lingering failed appends: %s", step, f, l, e.m.First, e.m.Last, len(cands), firstMsg, descHist(e.hist), descHist(e.linger))
	}
	for i, op := range e.c.Ops {
		if in == nil {
			e.opCounts = append(e.opCounts, e.fs.Counts())
		}
		if e.w == nil && op.K != "reopen" {
			// no usable instance (Open failed): only reopen makes sense
			if f := reopen(i); f != nil {
				return f
			}
		}
		if op.K == "retry" {
			if e.lastFailed == nil {
				continue
			}
			op = *e.lastFailed
			e.cls["retry-after-failure"] = true
		}
		switch op.K {
		case "append":
			start := e.m.ResolveStart(op.Start)
			var logs []*raft.Log
			for j, es := range op.Entries {
				logs = append(logs, es.Make(start+uint64(j), e.gen))
			}
			err := e.w.StoreLogs(logs)
			kit.Barrier(e.w)
			if err == nil {
				e.m.Append(logs)
				e.hist = append(e.hist, histOp{kind: "append", logs: logs, ok: true})
				if e.failedCalls > 0 {
					e.okAfterFailure++
				}
				e.lastFailed = nil
			} else {
				if in == nil {
					return common.Failf("harness", "fault-free StoreLogs failed: %v", err)
				}
				e.failedCalls++
				e.gen++
				e.hist = append(e.hist, histOp{kind: "append", logs: logs, ok: false})
				cp := op
				e.lastFailed = &cp
				e.cls["failed-append"] = true
			}
		case "del":
			min, max, ok := e.resolveDel(op)
			if !ok {
				continue
			}
			before := e.m.Clone()
			err := e.w.DeleteRange(min, max)
			kit.Barrier(e.w)
			if err == nil {
				e.m.Delete(min, max)
				e.gen++
				e.hist = append(e.hist, histOp{kind: "del", min: min, max: max, ok: true, head: min <= before.First && max < before.Last})
				if e.failedCalls > 0 {
					e.okAfterFailure++
				}
				e.lastFailed = nil
			} else {
				if in == nil {
					return common.Failf("harness", "fault-free DeleteRange failed: %v", err)
				}
				e.failedCalls++
				e.hist = append(e.hist, histOp{kind: "del", min: min, max: max, ok: false})
				cp := op
				e.lastFailed = &cp
				e.cls["failed-delete"] = true
				// in process the failed delete may be visible or not: follow the observation
				after := before.Clone()
				after.Delete(min, max)
				if sig, _ := kit.CheckAgainst(e.w, after, nil); sig == "" && !sameModel(before, after) {
					e.m = after
					e.cls["failed-delete-visible-in-process"] = true
				}
			}
		case "set":
			key := fmt.Sprintf("k%d", i%3)
			val := []byte{byte(i), e.gen}
			prev, had := e.stable[key]
			if err := e.w.Set([]byte(key), val); err == nil {
				e.stable[key] = val
				if got, gerr := e.w.Get([]byte(key)); gerr != nil || string(got) != string(val) {
					return common.Failf("stable-ack-not-readable", "step %d: Set(%q,%x) returned nil but Get returns %x (err %v)", i, key, val, got, gerr)
				}
				e.cls["set-acked"] = true
			} else {
				e.failedCalls++
				e.cls["failed-set"] = true
				if i%2 == 0 {
					// the caller retries the very same Set (as raft would): if that returns nil the value
					// must be there - whatever the first attempt left behind or remembered
					if err2 := e.w.Set([]byte(key), val); err2 == nil {
						e.stable[key] = val
						e.cls["failed-set-retried"] = true
						if got, gerr := e.w.Get([]byte(key)); gerr != nil || string(got) != string(val) {
							return common.Failf("stable-ack-not-readable", "step %d: Set(%q,%x) failed (%v), the same Set retried returned nil, but Get returns %x (err %v)", i, key, val, err, got, gerr)
						}
						break
					}
				}
				// a failed Set leaves the old value or the new one
				if got, gerr := e.w.Get([]byte(key)); gerr == nil {
					switch {
					case string(got) == string(val):
						e.stable[key] = val
						e.cls["failed-set-applied"] = true
					case had && string(got) == string(prev), !had && len(got) == 0:
					default:
						return common.Failf("stable-failed-set-garbled", "step %d: Set(%q,%x) failed (%v) and Get now returns %x, neither the old value %x nor the new one", i, key, val, err, got, prev)
					}
				}
			}
		case "reopen":
			if f := reopen(i); f != nil {
				return f
			}
			e.cls["reopen"] = true
		}
		if os.Getenv("VERIF_DEBUG") != "" {
			fmt.Printf("step %d %s: model [%d,%d] failedCalls=%d hist=%s\n%s", i, op.K, e.m.First, e.m.Last, e.failedCalls, descHist(e.hist), dumpFS(e.fs))
		}
		if f := e.inProcessCheck(i, op.K); f != nil {
			return f
		}
	}
	// final: clear faults, close (errors tolerated), reopen
	if in != nil {
		in.heal()
	} else {
		e.opCounts = append(e.opCounts, e.fs.Counts())
	}
	if in != nil && e.c.EndCrash != "" && e.w != nil {
		// power loss instead of a clean shutdown: whatever failed calls left un-synced may or may not
		// survive; everything acknowledged, before or after the failures, must
		old := e.w
		e.fs = e.fs.PowerLoss(simfs.Tear{Mode: e.c.EndCrash, DirKeep: map[string]uint64{"none": 0, "all": ^uint64(0)}[e.c.EndCrash], LenFull: e.c.EndCrash == "all"})
		e.w = nil
		old.Close() // still bound to the pre-crash filesystem object
		e.cls["history-ends-in-power-loss"] = true
		if f := reopen(len(e.c.Ops)); f != nil {
			f.Sig = "after-power-loss/" + f.Sig
			return f
		}
	} else if f := reopen(len(e.c.Ops)); f != nil {
		return f
	}
	// and once more: the first Open after a fault may itself repair things (complete a rotation,
	// recreate a tail) whose result is only read back through the on-disk index by the next Open
	if f := reopen(len(e.c.Ops) + 1); f != nil {
		f.Sig = "second-reopen/" + f.Sig
		return f
	}
	for k, want := range e.stable {
		got, err := e.w.Get([]byte(k))
		if err != nil || string(got) != string(want) {
			return common.Failf("stable-lost", "after final reopen stable key %q = %x (err %v), acknowledged %x", k, got, err, want)
		}
	}
	e.w.Close()
	e.w = nil
	e.format = formatVerdict(e.fs, e.m)
	// C13 ledger: creating a segment must never collide with an existing file,
	// nor re-use an ID that was retired from the metadata
	if len(e.fs.CreateDup) > 0 {
		e.ledger = common.Failf("create-collision", "Create was called on an existing file name: %v (every name created: %v)", e.fs.CreateDup, e.fs.Created)
	} else if len(e.fs.CreateRetired) > 0 {
		e.ledger = common.Failf("id-reused-after-retire", "a segment was created with a retired ID: %v", e.fs.CreateRetired)
	}
	return nil
}

func dumpFS(fs *simfs.FS) string {
	var b strings.Builder
	st, _ := fs.MetaState()
	fmt.Fprintf(&b, "  meta next=%d", st.NextSegmentID)
	for _, si := range st.Segments {
		fmt.Fprintf(&b, " [id=%d base=%d min=%d max=%d idx=%d sealed=%v]", si.ID, si.BaseIndex, si.MinIndex, si.MaxIndex, si.IndexStart, !si.SealTime.IsZero())
	}
	b.WriteString("\n")
	for _, n := range fs.Names() {
		c, _ := fs.ReadFile(n)
		end := len(c)
		for end > 0 && c[end-1] == 0 {
			end--
		}
		end = (end + 7) / 8 * 8
		if end > len(c) {
			end = len(c)
		}
		fmt.Fprintf(&b, "  %s len=%d:", n, len(c))
		for o := 0; o < end && o < 400; o += 8 {
			e := o + 8
			if e > len(c) {
				e = len(c)
			}
			fmt.Fprintf(&b, " %x", c[o:e])
		}
		b.WriteString("\n")
	}
	return b.String()
}

func descHist(h []histOp) string {
	s := ""
	for _, x := range h {
		st := "ok"
		if !x.ok {
			st = "FAILED"
		}
		if x.kind == "append" {
			s += fmt.Sprintf("append(%d..%d)=%s ", x.logs[0].Index, x.logs[len(x.logs)-1].Index, st)
		} else {
			s += fmt.Sprintf("del(%d,%d)=%s ", x.min, x.max, st)
		}
	}
	return s
}

func newEnv(c Case) *env {
	return &env{c: c, fs: simfs.New(), m: refmodel.NewLogModel(), base: refmodel.NewLogModel(), stable: map[string][]byte{}, cls: map[string]bool{}}
}

func runCase(c Case) (res common.Result) { return runCaseFor(c, "C10") }

func runCaseFor(c Case, prop string) (res common.Result) {
	// pass 1: count calls per kind without faults
	dry := newEnv(c)
	if f := dry.run(nil); f != nil {
		res.Fail = f
		return
	}
	counts := dry.fs.Counts()
	in := &injector{}
	aimed := false
	for _, f := range c.Faults {
		n := counts[simfs.Kind(f.Kind)]
		if simfs.Kind(f.Kind) == simfs.KReadAt {
			n = dry.dryOpenReads
		}
		if n == 0 {
			continue
		}
		ord := 1 + f.Sel%n
		if i := f.Op - 1; i >= 0 && i+1 < len(dry.opCounts) && simfs.Kind(f.Kind) != simfs.KReadAt {
			lo, hi := dry.opCounts[i][simfs.Kind(f.Kind)], dry.opCounts[i+1][simfs.Kind(f.Kind)]
			if hi > lo {
				ord = lo + 1 + f.Sel%(hi-lo) + f.Plus
				aimed = true
			}
		}
		in.plan = append(in.plan, resolved{kind: simfs.Kind(f.Kind), ord: ord, mode: f.Mode, partial: f.Partial, err: faultErr(f.Err)})
	}
	if len(in.plan) == 0 {
		return
	}
	e := newEnv(c)
	f := e.run(in)
	if e.w != nil {
		e.w.Close()
	}
	if prop == "C13" {
		// only the segment-identity ledger is this property's verdict; a persistent refusal to
		// create (the collision itself) may surface as a C10-style failure first, look at the ledger anyway
		if len(e.fs.CreateDup) > 0 && e.ledger == nil {
			e.ledger = common.Failf("create-collision", "Create was called on an existing file name: %v", e.fs.CreateDup)
		}
		res.Fail = e.ledger
	} else if prop == "C09" {
		res.Fail = e.format
	} else if prop == "C11" {
		// only "a failed Open left the metadata store locked" belongs to this property
		if f != nil && strings.Contains(f.Msg, "locked by an earlier instance") {
			f.Sig = "failed-open-left-lock/" + f.Sig
			res.Fail = f
		}
	} else if prop == "C08" {
		// only the stable-store verdicts belong to this property
		if f != nil && strings.HasPrefix(f.Sig, "stable-") {
			res.Fail = f
		}
	} else {
		res.Fail = f
	}
	res.NonTrivial = in.hits > 0 && e.failedCalls > 0 && e.okAfterFailure > 0
	for k := range e.cls {
		res.Classes = append(res.Classes, k)
	}
	for _, p := range in.plan {
		res.Classes = append(res.Classes, "fault:"+string(p.kind)+"/"+p.mode)
	}
	if in.hits == 0 {
		res.Classes = append(res.Classes, "fault-not-hit")
	} else if aimed {
		res.Classes = append(res.Classes, "fault-aimed-at-truncation")
	}
	return
}

func TestC10Faults(t *testing.T) {
	common.Run(t, "C10", "C10Faults", genCase, runCase)
}

// TestC13Faults runs the same fault histories and judges only the segment
// identity ledger (C13): no Create on an existing name, no retired ID re-used.
func TestC13Faults(t *testing.T) {
	common.Run(t, "C13", "C13Faults", genCase, func(c Case) common.Result { return runCaseFor(c, "C13") })
}

// TestC09Faults runs the same fault histories and judges only the files left
// behind against the README decoder (see formatVerdict).
func TestC09Faults(t *testing.T) {
	common.Run(t, "C09", "C09Faults", genCase, func(c Case) common.Result { return runCaseFor(c, "C09") })
}

// TestC08Faults: the fault histories with the stable store in focus (more Set calls, faults on
// SetStable and the metadata commit): a Set that returned nil reads back, in process and after the
// reopens; a Set that returned an error leaves the old or the new value, nothing else.
func TestC08Faults(t *testing.T) {
	common.Run(t, "C08", "C08Faults", func(t *rapid.T) Case {
		c := genCase(t)
		// more stable traffic
		for i := 0; i < len(c.Ops); i++ {
			if c.Ops[i].K == "get" || (c.Ops[i].K == "append" && rapid.IntRange(0, 2).Draw(t, "toSet") == 0) {
				c.Ops[i] = FOp{K: "set"}
			}
		}
		c.Ops = append(c.Ops, FOp{K: "set"}, FOp{K: "set"})
		if rapid.IntRange(0, 2).Draw(t, "stableFault") > 0 {
			c.Faults = append(c.Faults[:0:0], Fault{Kind: string(rapid.SampledFrom([]simfs.Kind{simfs.KSetStable, simfs.KSetStable, simfs.KCommitState}).Draw(t, "sfk")),
				Sel: rapid.IntRange(0, 40).Draw(t, "sfsel"), Mode: rapid.SampledFrom([]string{"transient", "transient", "persistent"}).Draw(t, "sfmode")})
		}
		return c
	}, func(c Case) common.Result { return runCaseFor(c, "C08") })
}

// TestC11Faults: the fault histories judged for one thing only - an Open that fails (on an injected
// error) leaves the metadata store unlocked, so that the next Open in the same process proceeds.
func TestC11Faults(t *testing.T) {
	common.Run(t, "C11", "C11Faults", genCase, func(c Case) common.Result { return runCaseFor(c, "C11") })
}
