package trace

import (
	"bytes"
	"encoding/json"
	"fmt"
	"os"
	"os/exec"
	"path/filepath"
	"strings"
	"testing"

	"github.com/hashicorp/raft"
	wal "github.com/hashicorp/raft-wal"
	"github.com/hashicorp/raft-wal/fs"
	"pgregory.net/rapid"

	"verifharness/common"
	"verifharness/kit"
	"verifharness/wl"
)

func TestMain(m *testing.M) { common.Main(m) }

func genWorkload(t *rapid.T) wl.Workload {
	w := wl.Workload{SegSize: rapid.SampledFrom([]int{128, 256, 256, 4096, 65536}).Draw(t, "seg")}
	n := rapid.IntRange(4, 40).Draw(t, "nops")
	// every trace should contain a rotation, a deletion and a commit into a
	// file opened (not created) by the current instance: a fixed tail of ops
	// after the generated part makes that the common case
	defer func() {
		big := w.SegSize/2 + 20
		w.Ops = append(w.Ops, wl.Op{K: "append", Sizes: []int{big, big}, Start: 1}, wl.Op{K: "append", Sizes: []int{big}, Start: 1},
			wl.Op{K: "delhead", A: 2}, wl.Op{K: "reopen"}, wl.Op{K: "append", Sizes: []int{10}, Start: 1})
	}()
	for i := 0; i < n; i++ {
		k := rapid.IntRange(0, 99).Draw(t, "k")
		switch {
		case k < 50:
			op := wl.Op{K: "append", Start: rapid.SampledFrom([]uint64{1, 1, 5, 1 << 33}).Draw(t, "start")}
			for j := 0; j < rapid.IntRange(1, 4).Draw(t, "n"); j++ {
				op.Sizes = append(op.Sizes, rapid.SampledFrom([]int{0, 10, 60, 100, 300, 1000}).Draw(t, "sz"))
			}
			w.Ops = append(w.Ops, op)
		case k < 60:
			w.Ops = append(w.Ops, wl.Op{K: "delhead", A: rapid.IntRange(0, 5).Draw(t, "a")})
		case k < 68:
			w.Ops = append(w.Ops, wl.Op{K: "deltail", A: rapid.IntRange(0, 3).Draw(t, "a")})
		case k < 71:
			w.Ops = append(w.Ops, wl.Op{K: "delall"})
		case k < 80:
			w.Ops = append(w.Ops, wl.Op{K: "set", Key: rapid.SampledFrom([]string{"CurrentTerm", "k"}).Draw(t, "key"), Val: rapid.SliceOfN(rapid.Byte(), 0, 10).Draw(t, "val")})
		case k < 83:
			w.Ops = append(w.Ops, wl.Op{K: "get", A: rapid.IntRange(0, 3).Draw(t, "a")})
		default:
			// reopen, often twice in a row (Open; Close; Open; append is the interesting shape)
			w.Ops = append(w.Ops, wl.Op{K: rapid.SampledFrom([]string{"reopen", "reopen", "reopenlost"}).Draw(t, "reopenKind")})
			if rapid.Bool().Draw(t, "twice") {
				w.Ops = append(w.Ops, wl.Op{K: "reopen"})
			}
		}
	}
	return w
}

func tracebin() string {
	if p := os.Getenv("VERIF_TRACEBIN"); p != "" {
		return p
	}
	d := os.Getenv("VERIF_DIR")
	if d == "" {
		d = "/verif"
	}
	return filepath.Join(d, ".build", "tracebin")
}

const straceSet = "trace=openat,pwrite64,write,fsync,fdatasync,fallocate,ftruncate,unlinkat,unlink,renameat,renameat2,rename,faccessat,faccessat2,access"

// runTraced executes the workload under strace and checks the invariant; own
// is the set of violation signatures this property reports.
func runTraced(own func(sig string) bool) func(w wl.Workload) common.Result {
	return func(w wl.Workload) (res common.Result) {
		work, err := os.MkdirTemp("", "verif-trace-")
		if err != nil {
			res.Fail = common.Failf("harness", "%v", err)
			return
		}
		defer os.RemoveAll(work)
		dir := filepath.Join(work, "wal")
		os.Mkdir(dir, 0o755)
		b, _ := json.Marshal(w)
		wf := filepath.Join(work, "w.json")
		os.WriteFile(wf, b, 0o644)
		tf := filepath.Join(work, "trace.txt")
		var calls []Sys
		var v *Violation
		var st Stats
		var lastProblem string
		for attempt := 0; attempt < 3; attempt++ {
			os.RemoveAll(dir)
			os.Mkdir(dir, 0o755)
			cmd := exec.Command("strace", "-f", "-y", "-qq", "-s", "0", "-e", straceSet, "-o", tf, tracebin(), wf, dir)
			var stderr bytes.Buffer
			cmd.Stderr = &stderr
			if err := cmd.Run(); err != nil {
				// the workload itself failed (or strace is unavailable): not a verdict of this property
				lastProblem = fmt.Sprintf("traced workload failed: %v: %s", err, stderr.String())
				continue
			}
			var err error
			calls, err = Parse(tf)
			if err != nil {
				lastProblem = fmt.Sprintf("parsing trace: %v", err)
				continue
			}
			v, st = CheckOwn(calls, dir, w.SegSize, own)
			if st.StoreLogsOK == 0 && st.Syscalls < 10 {
				raw, _ := os.ReadFile(tf)
				if len(raw) > 1500 {
					raw = raw[:1500]
				}
				lastProblem = fmt.Sprintf("trace is empty: strace produced no usable output (%d syscalls parsed); stderr: %s; trace head: %s", st.Syscalls, stderr.String(), raw)
				continue
			}
			lastProblem = ""
			break
		}
		if lastProblem != "" {
			common.Inconclusive("%s", lastProblem)
		}
		res.Sub = 1
		res.NonTrivial = st.FirstCommitNewSegment && st.Rotation && st.Deletion && st.CommitIntoOpenedFile
		for k, on := range map[string]bool{"first-commit-new-segment": st.FirstCommitNewSegment, "rotation": st.Rotation, "deletion": st.Deletion, "commit-into-opened-file": st.CommitIntoOpenedFile, "set-acked": st.SetOK > 0, "never-committed-tail-lost-before-open": st.LostTail > 0} {
			if on {
				res.Classes = append(res.Classes, k)
			}
		}
		res.Note = fmt.Sprintf("%d syscalls, %d StoreLogs acks, %d Set acks", st.Syscalls, st.StoreLogsOK, st.SetOK)
		if v != nil && own(v.Sig) {
			res.Fail = common.Failf(v.Sig, "%s", v.Msg)
		}
		return
	}
}

func TestC07Trace(t *testing.T) {
	common.Run(t, "C07", "C07Trace", genWorkload, runTraced(func(sig string) bool { return !strings.HasPrefix(sig, "set-before-") }))
}

func TestC08Trace(t *testing.T) {
	common.Run(t, "C08", "C08Trace", func(t *rapid.T) wl.Workload {
		w := genWorkload(t)
		// make sure stable writes are present
		w.Ops = append(w.Ops, wl.Op{K: "set", Key: "LastVoteCand", Val: []byte("n1")}, wl.Op{K: "setu64", Key: "CurrentTerm", A: 7})
		return w
	}, func(w wl.Workload) common.Result {
		r := runTraced(func(sig string) bool { return strings.HasPrefix(sig, "set-before-") })(w)
		r.NonTrivial = false
		for _, c := range r.Classes {
			if c == "set-acked" {
				r.NonTrivial = true
			}
		}
		return r
	})
}

// TestC07Prealloc: the K-th fallocate of every thread fails with ENOSPC (strace fault injection). Whatever
// the WAL does then - refuse to open, fail the rotation, fail the truncation - no segment file may be
// written to that was not created exclusively and preallocated to the requested size.
func TestC07Prealloc(t *testing.T) {
	common.Run(t, "C07", "C07Prealloc", func(t *rapid.T) FaultCase {
		w := genWorkload(t)
		w.Retry = true
		return FaultCase{W: w, Sel: rapid.IntRange(0, 3).Draw(t, "k")}
	}, func(c FaultCase) (res common.Result) {
		work, err := os.MkdirTemp("", "verif-tracep-")
		if err != nil {
			res.Fail = common.Failf("harness", "%v", err)
			return
		}
		defer os.RemoveAll(work)
		k := 1 + c.Sel
		calls, dir, stderr, rerr := straceRun(work, c.W, fmt.Sprintf("inject=fallocate:error=ENOSPC:when=%d", k))
		if len(calls) < 5 {
			common.Inconclusive("traced run with fallocate injection produced no trace: %v %s", rerr, stderr)
		}
		failedFalloc := 0
		for _, sc := range calls {
			if sc.Name == "fallocate" && strings.HasPrefix(sc.Ret, "-1") {
				failedFalloc++
			}
		}
		v, st := CheckOwn(calls, dir, c.W.SegSize, func(sig string) bool { return sig == "segment-not-preallocated" || sig == "segment-not-exclusive" })
		res.NonTrivial = failedFalloc > 0
		if failedFalloc > 0 {
			res.Classes = append(res.Classes, "fallocate-failed")
		}
		if rerr != nil {
			res.Classes = append(res.Classes, "workload-stopped-by-the-fault")
		} else if st.StoreLogsOK > 0 {
			res.Classes = append(res.Classes, "workload-completed-despite-the-fault")
		}
		if v != nil {
			res.Fail = common.Failf("after-fallocate-fault/"+v.Sig, "with fallocate #%d of every thread failing (ENOSPC): %s", k, v.Msg)
		}
		return
	})
}

// ---- direct property of fs.Create / Delete / ListDir

type CreateCase struct {
	Size  uint64 `json:"size"`
	Write int    `json:"write"`
}

func TestC07FsCreate(t *testing.T) {
	common.Run(t, "C07", "C07FsCreate", func(t *rapid.T) CreateCase {
		return CreateCase{Size: rapid.SampledFrom([]uint64{0, 1, 7, 8, 4095, 4096, 4097, 65536, 1 << 20}).Draw(t, "size"), Write: rapid.SampledFrom([]int{0, 1, 8, 100}).Draw(t, "write")}
	}, func(c CreateCase) (res common.Result) {
		res.NonTrivial = true
		dir, err := os.MkdirTemp("", "verif-fs-")
		if err != nil {
			res.Fail = common.Failf("harness", "%v", err)
			return
		}
		defer os.RemoveAll(dir)
		vfs := fs.New()
		f, err := vfs.Create(dir, "a.wal", c.Size)
		if err != nil {
			res.Fail = common.Failf("create-err", "Create(size=%d) = %v", c.Size, err)
			return
		}
		defer f.Close()
		if c.Write > 0 {
			if _, err := f.WriteAt(bytes.Repeat([]byte{0xAB}, c.Write), 0); err != nil {
				res.Fail = common.Failf("write-err", "%v", err)
				return
			}
		}
		fi, err := os.Stat(filepath.Join(dir, "a.wal"))
		if err != nil {
			res.Fail = common.Failf("stat", "%v", err)
			return
		}
		want := int64(c.Size)
		if int64(c.Write) > want {
			want = int64(c.Write)
		}
		if fi.Size() != want {
			res.Fail = common.Failf("not-preallocated", "Create(size=%d) then %d bytes written: file size is %d", c.Size, c.Write, fi.Size())
			return
		}
		buf := make([]byte, want)
		if want > 0 {
			if _, err := f.ReadAt(buf, 0); err != nil {
				res.Fail = common.Failf("read-err", "%v", err)
				return
			}
		}
		for i := c.Write; i < len(buf); i++ {
			if buf[i] != 0 {
				res.Fail = common.Failf("not-zero-filled", "byte %d of a freshly created %d-byte file is %#x", i, c.Size, buf[i])
				return
			}
		}
		if f2, err := vfs.Create(dir, "a.wal", c.Size); err == nil {
			f2.Close()
			res.Fail = common.Failf("create-not-exclusive", "second Create of an existing name succeeded")
			return
		}
		names, err := vfs.ListDir(dir)
		if err != nil || len(names) != 1 || names[0] != "a.wal" {
			res.Fail = common.Failf("listdir", "ListDir = %v, %v", names, err)
			return
		}
		if err := vfs.Delete(dir, "a.wal"); err != nil {
			res.Fail = common.Failf("delete-err", "%v", err)
			return
		}
		names, _ = vfs.ListDir(dir)
		if len(names) != 0 {
			res.Fail = common.Failf("delete-ineffective", "after Delete ListDir = %v", names)
		}
		return
	})
}

var _ = strings.Contains

// ---- fault runs: one fsync inside a StoreLogs fails (strace fault injection), the call is retried;
// the durability discipline must hold at the retried acknowledgement as well.

type FaultCase struct {
	W   wl.Workload `json:"w"`
	Sel int         `json:"sel"` // which of the fsyncs issued inside StoreLogs calls fails
	// AimFirst: choose among the fsyncs (file, directory) of first commits into new segment files only
	AimFirst bool `json:"aimFirst,omitempty"`
	// Errno the failing fsync reports ("" = EIO)
	Errno string `json:"errno,omitempty"`
}

// errnos an fsync may fail with: whatever the value, the bytes / the directory entry are not durable.
var fsyncErrnos = []string{"EIO", "EIO", "ENOSPC", "EDQUOT", "EINVAL", "EOPNOTSUPP", "EROFS", "EBADF"}

func (c FaultCase) errno() string {
	if c.Errno == "" {
		return "EIO"
	}
	return c.Errno
}

func straceRun(work string, w wl.Workload, inject string) ([]Sys, string, string, error) {
	dir := filepath.Join(work, "wal")
	os.RemoveAll(dir)
	os.Mkdir(dir, 0o755)
	b, _ := json.Marshal(w)
	wf := filepath.Join(work, "w.json")
	os.WriteFile(wf, b, 0o644)
	tf := filepath.Join(work, "trace.txt")
	args := []string{"-f", "-y", "-qq", "-s", "0", "-e", straceSet}
	if inject != "" {
		args = append(args, "-e", inject)
	}
	args = append(args, "-o", tf, tracebin(), wf, dir)
	cmd := exec.Command("strace", args...)
	var stderr bytes.Buffer
	cmd.Stderr = &stderr
	err := cmd.Run()
	calls, perr := Parse(tf)
	if perr != nil {
		return nil, dir, stderr.String(), perr
	}
	return calls, dir, stderr.String(), err
}

func TestC07Fault(t *testing.T) {
	common.Run(t, "C07", "C07Fault", func(t *rapid.T) FaultCase {
		w := genWorkload(t)
		w.Retry = true
		w.RetryReopen = rapid.Bool().Draw(t, "retryReopen")
		return FaultCase{W: w, Sel: rapid.IntRange(0, 1000).Draw(t, "sel"), AimFirst: rapid.Bool().Draw(t, "aimFirstCommit"), Errno: rapid.SampledFrom(fsyncErrnos).Draw(t, "errno")}
	}, func(c FaultCase) (res common.Result) {
		work, err := os.MkdirTemp("", "verif-tracef-")
		if err != nil {
			res.Fail = common.Failf("harness", "%v", err)
			return
		}
		defer os.RemoveAll(work)
		// dry run: where are the fsyncs of the marker thread inside StoreLogs calls?
		var calls []Sys
		var dir string
		for attempt := 0; attempt < 3; attempt++ {
			var stderr string
			calls, dir, stderr, err = straceRun(work, c.W, "")
			if err == nil && len(calls) > 10 {
				break
			}
			if attempt == 2 {
				common.Inconclusive("dry traced run failed: %v %s", err, stderr)
			}
		}
		_, st := Check(calls, dir, c.W.SegSize)
		if len(st.FsyncInStoreLogs) == 0 {
			res.Classes = []string{"no-fsync-in-storelogs"}
			return
		}
		k := st.FsyncInStoreLogs[c.Sel%len(st.FsyncInStoreLogs)]
		if c.AimFirst && len(st.FirstCommitFsyncs) > 0 {
			k = st.FirstCommitFsyncs[c.Sel%len(st.FirstCommitFsyncs)]
			res.Classes = append(res.Classes, "fault-on-first-commit-of-a-new-file")
		}
		calls, dir, stderr, err := straceRun(work, c.W, fmt.Sprintf("inject=fsync:error=%s:when=%d", c.errno(), k))
		res.Classes = append(res.Classes, "fsync-errno:"+c.errno())
		if err != nil {
			// the workload could not complete even with the retry (e.g. the injected error hit a second thread): no verdict
			res.Classes = []string{"fault-run-incomplete"}
			res.Note = stderr
			return
		}
		v, st2 := CheckOwn(calls, dir, c.W.SegSize, func(sig string) bool { return !strings.HasPrefix(sig, "set-before-") })
		res.NonTrivial = st2.StoreLogsErr > 0
		if st2.StoreLogsErr > 0 && c.W.RetryReopen {
			res.Classes = append(res.Classes, "storelogs-failed-reopened-retried")
		}
		if st2.AckWithResidue > 0 {
			res.Classes = append(res.Classes, "observation:ack-while-adopted-bytes-of-a-failed-call-unsynced")
		}
		if st2.StoreLogsErr > 0 {
			res.Classes = append(res.Classes, "storelogs-failed-then-retried")
		} else {
			res.Classes = append(res.Classes, "fault-not-inside-storelogs")
		}
		if v != nil {
			res.Fail = common.Failf("after-fsync-fault/"+v.Sig, "with fsync #%d of the API thread failing once (%s) and the failed StoreLogs retried: %s", k, c.errno(), v.Msg)
		}
		return
	})
}

// ---- Filer level: segment.Filer over the production fs, driven directly. A Delete that reports
// success must have unlinked the name and fsynced the directory since - also when it is the retry of
// a Delete whose directory fsync had failed, or a second Delete of the same segment.

type FilerCase struct {
	W     wl.Workload `json:"w"`
	Fault bool        `json:"fault"`
	Sel   int         `json:"sel"`
	Errno string      `json:"errno,omitempty"`
}

func genFilerCase(t *rapid.T) FilerCase {
	w := wl.Workload{SegSize: rapid.SampledFrom([]int{512, 4096}).Draw(t, "seg")}
	n := rapid.IntRange(2, 5).Draw(t, "nseg")
	type seg struct{ id, base uint64 }
	var segs []seg
	for i := 0; i < n; i++ {
		sg := seg{id: uint64(i + 1), base: uint64(1 + 10*i)}
		segs = append(segs, sg)
		w.Filer = append(w.Filer, wl.FilerOp{K: "create", ID: sg.id, Base: sg.base, N: rapid.IntRange(0, 3).Draw(t, "n")})
	}
	nd := rapid.IntRange(2, 8).Draw(t, "ndel")
	for i := 0; i < nd; i++ {
		sg := segs[rapid.IntRange(0, len(segs)-1).Draw(t, "which")]
		switch rapid.IntRange(0, 9).Draw(t, "dk") {
		case 0: // a segment that never existed
			w.Filer = append(w.Filer, wl.FilerOp{K: "delete", ID: sg.id + 100, Base: sg.base})
		case 1: // re-create (fails if it still exists) and go on
			w.Filer = append(w.Filer, wl.FilerOp{K: "create", ID: sg.id, Base: sg.base, N: 1})
		default:
			w.Filer = append(w.Filer, wl.FilerOp{K: "delete", ID: sg.id, Base: sg.base})
			if rapid.IntRange(0, 2).Draw(t, "again") > 0 {
				w.Filer = append(w.Filer, wl.FilerOp{K: "delete", ID: sg.id, Base: sg.base})
			}
		}
	}
	return FilerCase{W: w, Fault: rapid.IntRange(0, 3).Draw(t, "fault") > 0, Sel: rapid.IntRange(0, 1000).Draw(t, "sel"), Errno: rapid.SampledFrom(fsyncErrnos).Draw(t, "errno")}
}

func TestC07Filer(t *testing.T) {
	common.Run(t, "C07", "C07Filer", genFilerCase, func(c FilerCase) (res common.Result) {
		work, err := os.MkdirTemp("", "verif-tracefiler-")
		if err != nil {
			res.Fail = common.Failf("harness", "%v", err)
			return
		}
		defer os.RemoveAll(work)
		var calls []Sys
		var dir string
		for attempt := 0; attempt < 3; attempt++ {
			var stderr string
			calls, dir, stderr, err = straceRun(work, c.W, "")
			if err == nil && len(calls) > 4 {
				break
			}
			if attempt == 2 {
				common.Inconclusive("dry traced filer run failed: %v %s", err, stderr)
			}
		}
		v, st := Check(calls, dir, c.W.SegSize)
		if v != nil {
			res.Fail = common.Failf("filer/"+v.Sig, "%s", v.Msg)
			return
		}
		res.NonTrivial = st.FilerDeleteOK > 0
		res.Classes = append(res.Classes, "filer-delete")
		if !c.Fault || len(st.FsyncInFilerDelete) == 0 {
			return
		}
		k := st.FsyncInFilerDelete[c.Sel%len(st.FsyncInFilerDelete)]
		errno := c.Errno
		if errno == "" {
			errno = "EIO"
		}
		calls, dir, stderr, err := straceRun(work, c.W, fmt.Sprintf("inject=fsync:error=%s:when=%d", errno, k))
		if err != nil {
			res.Classes = append(res.Classes, "fault-run-incomplete")
			res.Note = stderr
			return
		}
		v, st = Check(calls, dir, c.W.SegSize)
		res.Classes = append(res.Classes, "filer-delete-dirsync-failed", "fsync-errno:"+errno)
		if st.FilerDeleteOKAfterFailure > 0 {
			res.Classes = append(res.Classes, "filer-delete-retried-after-failure")
		}
		if v != nil {
			res.Fail = common.Failf("filer-after-fault/"+v.Sig, "with fsync #%d of the API thread (the directory fsync of a Filer.Delete) failing once (%s): %s", k, errno, v.Msg)
		}
		return
	})
}

// ---- process kills at syscall boundaries on the production stack (C03, and C01's verdict on
// the same images): strace delivers SIGKILL when the process enters the K-th call of one
// syscall (fsync, fdatasync, pwrite64, renameat, openat, fallocate, unlinkat, ftruncate) - the
// machine stays up, the page cache survives. Whatever the boundary - inside the very first
// Open while bolt initialises wal-meta.db, inside a rotation, a truncation, an append - the
// directory must open again, hold exactly the acknowledged log (or that plus the call in
// flight), accept an append and show it after one more Close and Open.

type KillCase struct {
	W       wl.Workload `json:"w"`
	Syscall string      `json:"syscall"`
	Sel     int         `json:"sel"`
}

var killSyscalls = []string{"fsync", "fdatasync", "fdatasync", "pwrite64", "pwrite64", "renameat", "openat", "fallocate", "unlinkat", "ftruncate", "write"}

func genKillCase(t *rapid.T) KillCase {
	w := wl.Workload{SegSize: rapid.SampledFrom([]int{128, 256, 4096}).Draw(t, "seg")}
	n := rapid.IntRange(0, 9).Draw(t, "nops")
	for i := 0; i < n; i++ {
		switch k := rapid.IntRange(0, 99).Draw(t, "k"); {
		case k < 55:
			op := wl.Op{K: "append", Start: rapid.SampledFrom([]uint64{1, 1, 5, 1 << 33}).Draw(t, "start")}
			for j := 0; j < rapid.IntRange(1, 3).Draw(t, "n"); j++ {
				op.Sizes = append(op.Sizes, rapid.SampledFrom([]int{0, 10, 60, 100, 300}).Draw(t, "sz"))
			}
			w.Ops = append(w.Ops, op)
		case k < 65:
			w.Ops = append(w.Ops, wl.Op{K: "delhead", A: rapid.IntRange(0, 4).Draw(t, "a")})
		case k < 73:
			w.Ops = append(w.Ops, wl.Op{K: "deltail", A: rapid.IntRange(0, 3).Draw(t, "a")})
		case k < 77:
			w.Ops = append(w.Ops, wl.Op{K: "delall"})
		case k < 85:
			w.Ops = append(w.Ops, wl.Op{K: "set", Key: "k", Val: rapid.SliceOfN(rapid.Byte(), 0, 10).Draw(t, "val")})
		default:
			w.Ops = append(w.Ops, wl.Op{K: "reopen"})
		}
	}
	return KillCase{W: w, Syscall: rapid.SampledFrom(killSyscalls).Draw(t, "syscall"), Sel: rapid.IntRange(0, 10000).Draw(t, "sel")}
}

func runKillCase(c KillCase) (res common.Result) {
	work, err := os.MkdirTemp("", "verif-kill-")
	if err != nil {
		res.Fail = common.Failf("harness", "%v", err)
		return
	}
	defer os.RemoveAll(work)
	var calls []Sys
	for attempt := 0; attempt < 3; attempt++ {
		var stderr string
		calls, _, stderr, err = straceRun(work, c.W, "")
		if err == nil && len(calls) > 10 {
			break
		}
		if attempt == 2 {
			common.Inconclusive("dry traced run failed: %v %s", err, stderr)
		}
	}
	// per-thread occurrence counts of the chosen syscall (strace counts injections per thread)
	perTid := map[string]int{}
	max := 0
	for _, sc := range calls {
		if sc.Name == c.Syscall {
			perTid[sc.Tid]++
			if perTid[sc.Tid] > max {
				max = perTid[sc.Tid]
			}
		}
	}
	if max == 0 {
		res.Classes = []string{"syscall-not-issued"}
		return
	}
	k := 1 + c.Sel%max
	calls, dir, _, _ := straceRun(work, c.W, fmt.Sprintf("inject=%s:signal=KILL:when=%d", c.Syscall, k))
	// which steps were acknowledged before the kill, and is one in flight?
	acked, inflight, firstOpenDone := 0, false, false
	for _, sc := range calls {
		if sc.Name != "access" && sc.Name != "faccessat" && sc.Name != "faccessat2" {
			continue
		}
		q := reQuoted.FindStringSubmatch(sc.Args)
		if q == nil || !strings.HasPrefix(q[1], "/verif-mark/") {
			continue
		}
		parts := strings.Split(strings.TrimPrefix(q[1], "/verif-mark/"), "/")
		if len(parts) != 3 {
			continue
		}
		var step int
		fmt.Sscanf(parts[0], "%d", &step)
		op, ph := parts[1], parts[2]
		if step == 0 && op == "Open" && ph == "ok" {
			firstOpenDone = true
		}
		if step >= 1 && step <= len(c.W.Ops) {
			mut := op == "StoreLogs" || op == "DeleteRange"
			if mut && ph == "begin" {
				inflight = true
			}
			if mut && ph == "ok" {
				inflight = false
			}
			// a step is complete when its last marked call finished: Barrier for appends, the call itself otherwise
			kind := c.W.Ops[step-1].K
			done := false
			switch kind {
			case "append":
				done = op == "StoreLogs" && ph == "ok"
			case "delhead", "deltail", "delall":
				done = op == "DeleteRange" && ph == "ok"
			case "set":
				done = op == "Set" && ph == "ok"
			case "reopen":
				done = op == "Open" && ph == "ok"
			default:
				done = ph == "ok"
			}
			if done && step > acked {
				acked = step
			}
		}
	}
	// truncations of an empty model issue no call at all: count them as passed when a later step was reached
	m, withNext := wl.ModelAfter(c.W, acked)
	for acked < len(c.W.Ops) && withNext == nil {
		// steps without effect on the log (set, reopen, get, a truncation of an empty log) need no either-or
		k := c.W.Ops[acked].K
		if k == "append" || ((k == "delhead" || k == "deltail" || k == "delall") && !m.Empty()) {
			break
		}
		acked++
		m, withNext = wl.ModelAfter(c.W, acked)
	}
	_ = inflight
	res.Classes = append(res.Classes, "killed-at:"+c.Syscall)
	if !firstOpenDone {
		res.Classes = append(res.Classes, "killed-inside-first-open")
	}
	cfg := kit.Cfg{SegSize: c.W.SegSize, Dir: dir}
	type openRes struct {
		w   *wal.WAL
		err error
	}
	ch := make(chan openRes, 1)
	go func() {
		defer func() {
			if p := recover(); p != nil {
				ch <- openRes{nil, fmt.Errorf("panic: %v", p)}
			}
		}()
		w, err := cfg.Open()
		ch <- openRes{w, err}
	}()
	or := <-ch
	if or.err != nil {
		res.Fail = common.Failf("kill/open-failed", "process killed on entering %s #%d (per thread) after %d acknowledged steps of %d: Open of the directory it left = %v", c.Syscall, k, acked, len(c.W.Ops), or.err)
		return
	}
	w := or.w
	defer func() { w.Close() }()
	cur := m
	if sig, msg := kit.CheckAgainst(w, m, nil); sig != "" {
		if withNext == nil {
			res.Fail = common.Failf("kill/state/"+sig, "process killed on entering %s #%d after %d acknowledged steps: %s", c.Syscall, k, acked, msg)
			return
		}
		if sig2, msg2 := kit.CheckAgainst(w, withNext, nil); sig2 != "" {
			res.Fail = common.Failf("kill/state/"+sig, "process killed on entering %s #%d after %d acknowledged steps, step %d possibly in flight: the log matches neither the state before it (%s) nor after it (%s)", c.Syscall, k, acked, acked+1, msg, msg2)
			return
		}
		cur = withNext
	}
	// usable, and what it then acknowledges is kept
	next := cur.Last + 1
	if cur.Empty() {
		next = 7
	}
	l := kit.EntrySpec{DataLen: 33, Seed: 99}.Make(next, 9)
	if err := w.StoreLogs([]*raft.Log{l}); err != nil {
		res.Fail = common.Failf("kill/append-refused", "after a process kill on entering %s #%d and a successful Open, StoreLogs(%d) = %v", c.Syscall, k, next, err)
		return
	}
	cur = cur.Clone()
	cur.Append([]*raft.Log{l})
	if err := w.Close(); err != nil {
		res.Fail = common.Failf("kill/close-err", "%v", err)
		return
	}
	if w, err = cfg.Open(); err != nil {
		res.Fail = common.Failf("kill/second-open-failed", "after a process kill on entering %s #%d, recovery and one more append: Open = %v", c.Syscall, k, err)
		return
	}
	if sig, msg := kit.CheckAgainst(w, cur, nil); sig != "" {
		res.Fail = common.Failf("kill/second-state/"+sig, "after a process kill on entering %s #%d, recovery, one append, Close and Open: %s", c.Syscall, k, msg)
		return
	}
	res.NonTrivial = true
	return
}

func TestC03KillPoints(t *testing.T) {
	common.Run(t, "C03", "C03KillPoints", genKillCase, runKillCase)
}
