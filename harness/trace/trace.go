// Package trace observes the syscalls issued by the production stack (strace)
// and checks the durability discipline as an invariant over that history (C07, C08).
package trace

import (
	"bufio"
	"fmt"
	"os"
	"path/filepath"
	"regexp"
	"strconv"
	"strings"
)

type Sys struct {
	Tid  string
	Name string
	Args string
	Ret  string
	Line int
}

var (
	reFull   = regexp.MustCompile(`^(\d+)\s+(\w+)\((.*)\)\s+= (-?\d+|\?)(.*)$`)
	reUnfin  = regexp.MustCompile(`^(\d+)\s+(\w+)\((.*) <unfinished \.\.\.>$`)
	reResume = regexp.MustCompile(`^(\d+)\s+<\.\.\. (\w+) resumed>(.*)\)\s+= (-?\d+|\?)(.*)$`)
	reFdPath = regexp.MustCompile(`^(\d+)<([^>]*)>`)
	reQuoted = regexp.MustCompile(`"((?:[^"\\]|\\.)*)"`)
)

// Parse reads an strace -f -y output file into completed syscalls in completion order.
func Parse(path string) ([]Sys, error) {
	f, err := os.Open(path)
	if err != nil {
		return nil, err
	}
	defer f.Close()
	var out []Sys
	pending := map[string]Sys{}
	sc := bufio.NewScanner(f)
	sc.Buffer(make([]byte, 1<<20), 1<<20)
	n := 0
	for sc.Scan() {
		n++
		line := sc.Text()
		if m := reFull.FindStringSubmatch(line); m != nil {
			out = append(out, Sys{Tid: m[1], Name: m[2], Args: m[3], Ret: m[4] + m[5], Line: n})
			continue
		}
		if m := reUnfin.FindStringSubmatch(line); m != nil {
			pending[m[1]] = Sys{Tid: m[1], Name: m[2], Args: m[3], Line: n}
			continue
		}
		if m := reResume.FindStringSubmatch(line); m != nil {
			p := pending[m[1]]
			delete(pending, m[1])
			out = append(out, Sys{Tid: m[1], Name: m[2], Args: p.Args + m[3], Ret: m[4] + m[5], Line: n})
			continue
		}
	}
	return out, sc.Err()
}

type fileState struct {
	exists       bool
	dirty        bool // written since last fsync/fdatasync of the file
	entryDurable bool // directory entry made durable by a directory fsync since creation
	createdExcl  bool
	falloc       int64
	createdBy    int  // instance number that created it
	writtenSince bool // written since the current StoreLogs begin marker
	everWritten  bool
	// residue: the un-fsynced bytes were written by an earlier WAL instance (a call that failed
	// there, e.g. on a failed fsync) and no call of the current instance has written to the file.
	// The property speaks of the bytes written for the acknowledged call, so such a file is not
	// held against a later acknowledgement; it is reported as a statistic instead.
	residue bool
	// unsynced: byte ranges written since the last successful fsync of the file. lost: ranges that
	// were unsynced when an fsync of the file FAILED and that have not been written again since -
	// after a failed fsync the kernel marks the pages clean, so a later successful fsync says
	// nothing about them (the "fsyncgate" semantics); only writing them again helps.
	unsynced [][2]int64
	lost     [][2]int64
}

// subtractRange removes [a,b) from a list of ranges.
func subtractRange(rs [][2]int64, a, b int64) [][2]int64 {
	var out [][2]int64
	for _, r := range rs {
		if b <= r[0] || a >= r[1] {
			out = append(out, r)
			continue
		}
		if r[0] < a {
			out = append(out, [2]int64{r[0], a})
		}
		if b < r[1] {
			out = append(out, [2]int64{b, r[1]})
		}
	}
	return out
}

// Violation of the trace invariant.
type Violation struct {
	Sig, Msg string
}

// Stats about what the trace contained (non-triviality).
type Stats struct {
	FirstCommitNewSegment bool
	Rotation              bool
	Deletion              bool
	CommitIntoOpenedFile  bool
	StoreLogsOK           int
	StoreLogsErr          int
	SetOK                 int
	Syscalls              int
	// AckWithResidue: acknowledgements given while another file still held un-fsynced bytes that a
	// failed call of an earlier WAL instance had written and a restart had adopted.
	AckWithResidue int
	// LostAdopted: files whose bytes had been lost to a failed fsync when a new WAL instance opened them.
	LostAdopted int
	// LostTail: never-committed tail files removed by the harness between Close and Open.
	LostTail int
	// FsyncInStoreLogs lists, for the thread that issues the markers, the ordinals
	// (1-based, among that thread's fsync calls) of the fsyncs issued inside StoreLogs calls.
	FsyncInStoreLogs []int
	// FirstCommitFsyncs: the subset belonging to the first commit into a newly created file.
	FirstCommitFsyncs []int
	// FsyncInFilerDelete: ordinals of the marker thread's fsyncs issued inside Filer.Delete calls.
	FsyncInFilerDelete []int
	FilerDeleteOK      int
	FilerDeleteErr     int
	// FilerDeleteOKAfterFailure: Deletes that returned nil for a name an earlier Delete had failed on.
	FilerDeleteOKAfterFailure int
}

// Check replays the trace of a workload that ran in dir with the given segment size.
func Check(calls []Sys, dir string, segSize int) (*Violation, Stats) {
	return CheckOwn(calls, dir, segSize, nil)
}

// CheckOwn is Check restricted to the invariants whose signature own accepts (nil = all): a
// violation of another invariant does not end the replay, so that each property sees its own verdict
// even when an earlier event already broke somebody else's.
func CheckOwn(calls []Sys, dir string, segSize int, own func(sig string) bool) (*Violation, Stats) {
	var st Stats
	files := map[string]*fileState{}
	get := func(p string) *fileState {
		fs := files[p]
		if fs == nil {
			fs = &fileState{}
			files[p] = fs
		}
		return fs
	}
	pendingUnlink := map[string]int{}
	// undurableUnlink: unlinked names whose removal no successful directory fsync has covered yet.
	// Unlike pendingUnlink it survives a failed directory fsync: whoever later reports that very
	// deletion done (a retried Filer.Delete) owes the fsync.
	undurableUnlink := map[string]int{}
	filerDeleteFailed := map[string]bool{}
	inDir := func(p string) bool { return strings.HasPrefix(p, dir+"/") }
	metaFinal := filepath.Join(dir, "wal-meta.db")
	metaTmp := metaFinal + ".tmp"
	instance := 0
	renameDurable := true
	segCreatedSinceRename := false
	var curOp, curPhase string
	markerTid := ""
	fsyncOrd := 0
	vio := func(sig, format string, a ...any) *Violation {
		if own != nil && !own(sig) {
			return nil
		}
		return &Violation{Sig: sig, Msg: fmt.Sprintf(format, a...)}
	}
	for _, c := range calls {
		st.Syscalls++
		failed := strings.HasPrefix(c.Ret, "-1")
		switch c.Name {
		case "faccessat", "faccessat2", "access":
			q := reQuoted.FindStringSubmatch(c.Args)
			if q == nil || !strings.HasPrefix(q[1], "/verif-mark/") {
				continue
			}
			parts := strings.Split(strings.TrimPrefix(q[1], "/verif-mark/"), "/")
			if len(parts) != 3 {
				continue
			}
			curOp, curPhase = parts[1], parts[2]
			step := parts[0]
			markerTid = c.Tid
			if curOp == "StoreLogs" && curPhase == "err" {
				st.StoreLogsErr++
			}
			if curOp == "Open" && curPhase == "begin" {
				instance++
				for _, fs := range files {
					if fs.dirty {
						fs.residue = true
					}
					if len(fs.lost) > 0 {
						// what an earlier instance lost to a failed fsync cannot be told from good data by
						// the instance that re-reads it from the page cache: an observation, not a verdict
						st.LostAdopted++
						fs.lost = nil
					}
				}
			}
			if curOp == "StoreLogs" && curPhase == "begin" {
				for _, fs := range files {
					fs.writtenSince = false
				}
			}
			if strings.HasPrefix(curOp, "FilerDelete:") && curPhase != "begin" {
				p := filepath.Join(dir, strings.TrimPrefix(curOp, "FilerDelete:"))
				if curPhase == "err" {
					st.FilerDeleteErr++
					filerDeleteFailed[p] = true
				} else {
					st.FilerDeleteOK++
					if filerDeleteFailed[p] {
						st.FilerDeleteOKAfterFailure++
					}
					if ln, bad := undurableUnlink[p]; bad {
						if v := vio("filer-delete-ack-without-dirsync", "step %s Filer.Delete of %s returned nil but the unlink of that name (trace line %d) has never been followed by a successful fsync of the directory: after a power loss the segment may be back", step, filepath.Base(p), ln); v != nil {
							return v, st
						}
					}
					if fs := files[p]; fs != nil && fs.exists {
						if v := vio("filer-delete-ack-still-linked", "step %s Filer.Delete of %s returned nil but the name was never unlinked", step, filepath.Base(p)); v != nil {
							return v, st
						}
					}
				}
			}
			if curPhase == "ok" {
				if len(pendingUnlink) > 0 {
					for p, ln := range pendingUnlink {
						if v := vio("unlink-without-dirsync", "step %s %s returned but the unlink of %s (trace line %d) was not followed by an fsync of the directory", step, curOp, filepath.Base(p), ln); v != nil {
							return v, st
						}
					}
				}
			}
			if curOp == "StoreLogs" && curPhase == "ok" {
				st.StoreLogsOK++
				for p, fs := range files {
					if !strings.HasSuffix(p, ".wal") || !fs.exists {
						continue
					}
					if len(fs.lost) > 0 {
						if v := vio("ack-after-failed-fsync-without-rewrite", "step %s StoreLogs returned nil although bytes %v of %s were written before an fsync of that file failed and have not been written again: a failed fsync leaves the pages marked clean, so the later successful fsync does not cover them", step, fs.lost, filepath.Base(p)); v != nil {
							return v, st
						}
					}
					if fs.dirty && fs.residue && !fs.writtenSince {
						st.AckWithResidue++
					} else if fs.dirty {
						if v := vio("ack-before-fsync", "step %s StoreLogs returned nil while %s has bytes written but not fsynced", step, filepath.Base(p)); v != nil {
							return v, st
						}
					}
					if fs.writtenSince && !fs.entryDurable {
						if v := vio("ack-before-dirsync", "step %s StoreLogs returned nil after writing to %s whose directory entry was never made durable (created by WAL instance #%d, written by instance #%d, no fsync of the directory since its creation)", step, filepath.Base(p), fs.createdBy, instance); v != nil {
							return v, st
						}
					}
					if fs.writtenSince && fs.createdBy != instance {
						st.CommitIntoOpenedFile = true
					}
				}
			}
			if curOp == "DeleteRange" && curPhase == "ok" {
				// a truncation that force-sealed the tail commits that seal to the metadata: the index and
				// commit frames it wrote must have been fsynced by then, like any other commit
				for p, fs := range files {
					if strings.HasSuffix(p, ".wal") && fs.exists && fs.dirty && !fs.residue {
						if v := vio("truncation-ack-before-fsync", "step %s DeleteRange returned nil while %s has bytes written but not fsynced", step, filepath.Base(p)); v != nil {
							return v, st
						}
					}
				}
			}
			if curOp == "Set" && curPhase == "ok" {
				st.SetOK++
				if !renameDurable {
					if v := vio("set-before-rename-durable", "step %s Set returned nil but the rename of wal-meta.db.tmp to wal-meta.db has not been followed by an fsync of the directory: after a power loss the database - and this value - may be gone", step); v != nil {
						return v, st
					}
				}
				if fs := files[metaFinal]; fs != nil && fs.dirty {
					if v := vio("set-before-fsync", "step %s Set returned nil while wal-meta.db has un-synced writes", step); v != nil {
						return v, st
					}
				}
			}
		case "openat":
			q := reQuoted.FindStringSubmatch(c.Args)
			if q == nil || failed {
				continue
			}
			p := q[1]
			if p == dir {
				continue
			}
			if !inDir(p) {
				continue
			}
			creat := strings.Contains(c.Args, "O_CREAT")
			excl := strings.Contains(c.Args, "O_EXCL")
			fs := get(p)
			if creat && !fs.exists {
				// a creating open
				if p == metaFinal {
					if v := vio("meta-created-in-place", "wal-meta.db was created by openat(O_CREAT) under its final name instead of tmp+rename (trace line %d)", c.Line); v != nil {
						return v, st
					}
				}
				fs.exists = true
				fs.entryDurable = false
				fs.createdExcl = excl
				fs.createdBy = instance
				fs.dirty = false
				fs.falloc = -1
				if strings.HasSuffix(p, ".wal") {
					if !excl {
						if v := vio("segment-not-exclusive", "segment file %s created without O_EXCL (trace line %d)", filepath.Base(p), c.Line); v != nil {
							return v, st
						}
					}
					if !renameDurable {
						if v := vio("meta-rename-not-durable", "segment file %s created before the directory was fsynced after renaming wal-meta.db into place", filepath.Base(p)); v != nil {
							return v, st
						}
					}
					segCreatedSinceRename = true
				}
			} else if !fs.exists {
				fs.exists = true // pre-existing file we had not seen
				fs.entryDurable = true
			}
		case "fallocate":
			m := reFdPath.FindStringSubmatch(c.Args)
			if m == nil || !inDir(m[2]) || failed {
				continue
			}
			f := strings.Split(c.Args, ", ")
			if len(f) >= 4 {
				n, _ := strconv.ParseInt(strings.TrimSpace(f[len(f)-1]), 10, 64)
				get(m[2]).falloc = n
			}
		case "pwrite64", "write":
			m := reFdPath.FindStringSubmatch(c.Args)
			if m == nil || !inDir(m[2]) || failed {
				continue
			}
			fs := get(m[2])
			if strings.HasSuffix(m[2], ".wal") {
				if !fs.everWritten && fs.createdBy > 0 && fs.falloc != int64(segSize) {
					if v := vio("segment-not-preallocated", "first write to %s but it was not preallocated to the requested %d bytes (fallocate length %d)", filepath.Base(m[2]), segSize, fs.falloc); v != nil {
						return v, st
					}
				}
				if !fs.everWritten && fs.createdBy == instance {
					st.FirstCommitNewSegment = true
				}
			}
			fs.dirty = true
			fs.writtenSince = true
			fs.everWritten = true
			if c.Name == "pwrite64" && strings.HasSuffix(m[2], ".wal") {
				f := strings.Split(c.Args, ", ")
				if len(f) >= 4 {
					n, e1 := strconv.ParseInt(strings.TrimSpace(f[len(f)-2]), 10, 64)
					off, e2 := strconv.ParseInt(strings.TrimSpace(f[len(f)-1]), 10, 64)
					if e1 == nil && e2 == nil && n > 0 {
						fs.unsynced = append(fs.unsynced, [2]int64{off, off + n})
						fs.lost = subtractRange(fs.lost, off, off+n)
					}
				}
			}
		case "fsync", "fdatasync":
			if c.Name == "fsync" && c.Tid == markerTid {
				fsyncOrd++
				if strings.HasPrefix(curOp, "FilerDelete:") && curPhase == "begin" {
					st.FsyncInFilerDelete = append(st.FsyncInFilerDelete, fsyncOrd)
				}
				if curOp == "StoreLogs" && curPhase == "begin" {
					st.FsyncInStoreLogs = append(st.FsyncInStoreLogs, fsyncOrd)
					// the two fsyncs of a first commit into a new file: the file's while its directory
					// entry is not durable yet, and the directory's
					if mm := reFdPath.FindStringSubmatch(c.Args); mm != nil {
						if fs := files[mm[2]]; mm[2] == dir || (fs != nil && strings.HasSuffix(mm[2], ".wal") && !fs.entryDurable) {
							st.FirstCommitFsyncs = append(st.FirstCommitFsyncs, fsyncOrd)
						}
					}
				}
			}
			m := reFdPath.FindStringSubmatch(c.Args)
			if m != nil && failed && m[2] != dir && inDir(m[2]) {
				if fs := files[m[2]]; fs != nil {
					fs.lost = append(fs.lost, fs.unsynced...)
					fs.unsynced = nil
				}
			}
			if m != nil && failed && m[2] == dir {
				// the directory fsync of a Delete failed: that Delete reports an error, i.e. the
				// deletion is not "reported done" (the WAL only logs it); nothing is owed for it
				for p := range pendingUnlink {
					delete(pendingUnlink, p)
				}
			}
			if m == nil || failed {
				continue
			}
			if m[2] == dir {
				for _, fs := range files {
					if fs.exists {
						fs.entryDurable = true
					}
				}
				for p := range pendingUnlink {
					delete(pendingUnlink, p)
				}
				for p := range undurableUnlink {
					delete(undurableUnlink, p)
				}
				renameDurable = true
				continue
			}
			if inDir(m[2]) {
				get(m[2]).dirty = false
				get(m[2]).residue = false
				get(m[2]).unsynced = nil
			}
		case "unlinkat", "unlink":
			q := reQuoted.FindStringSubmatch(c.Args)
			if q == nil || failed || !inDir(q[1]) {
				continue
			}
			if fs := files[q[1]]; fs != nil {
				fs.exists = false
				fs.dirty = false
			}
			if curOp == "HarnessLoseTail" && curPhase == "begin" {
				st.LostTail++
				continue // removed by the harness (a never-committed tail lost to a power loss), not by the WAL
			}
			if strings.HasSuffix(q[1], ".wal") {
				pendingUnlink[q[1]] = c.Line
				undurableUnlink[q[1]] = c.Line
				st.Deletion = true
			}
		case "renameat", "renameat2", "rename":
			qs := reQuoted.FindAllStringSubmatch(c.Args, -1)
			if len(qs) < 2 || failed {
				continue
			}
			from, to := qs[0][1], qs[1][1]
			if to == metaFinal {
				if from != metaTmp {
					if v := vio("meta-rename-source", "wal-meta.db renamed from %s", from); v != nil {
						return v, st
					}
				}
				if fs := files[from]; fs != nil && fs.dirty {
					if v := vio("meta-renamed-dirty", "wal-meta.db.tmp renamed into place with un-synced writes"); v != nil {
						return v, st
					}
				}
				if fs := files[from]; fs != nil {
					files[to] = fs
					delete(files, from)
				} else {
					get(to).exists = true
				}
				renameDurable = false
				segCreatedSinceRename = false
			}
		}
		_ = segCreatedSinceRename
	}
	// rotation = a creating open of a segment during a Barrier/StoreLogs (seen as >1 created files)
	created := 0
	for p, fs := range files {
		if strings.HasSuffix(p, ".wal") && fs.createdBy > 0 {
			created++
		}
	}
	st.Rotation = created > 1
	return nil, st
}
