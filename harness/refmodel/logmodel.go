// Package refmodel holds reference models written from the documentation of
// raft-wal (README, interface comments), not from its implementation.
package refmodel

import (
	"bytes"
	"fmt"

	"github.com/hashicorp/raft"
)

// LogModel is a contiguous map index -> entry with the documented LogStore rules.
type LogModel struct {
	First, Last uint64 // 0,0 when empty
	Entries     map[uint64]*raft.Log
	// LastEver is the highest index the log ever held (raft continues there after a
	// compaction that emptied the log).
	LastEver uint64
}

// StartCont as an append's start index means: if the log is empty, continue right after
// the highest index it ever held (1 for a log that never held anything).
const StartCont = ^uint64(0)

// ResolveStart gives the index of the first entry of an append described by opStart
// (0 => 1, StartCont => LastEver+1, else the value itself) when the log is empty, and
// Last+1 otherwise.
func (m *LogModel) ResolveStart(opStart uint64) uint64 {
	if !m.Empty() {
		return m.Last + 1
	}
	switch opStart {
	case 0:
		return 1
	case StartCont:
		return m.LastEver + 1
	}
	return opStart
}

func NewLogModel() *LogModel { return &LogModel{Entries: map[uint64]*raft.Log{}} }

func (m *LogModel) Clone() *LogModel {
	c := &LogModel{First: m.First, Last: m.Last, LastEver: m.LastEver, Entries: make(map[uint64]*raft.Log, len(m.Entries))}
	for k, v := range m.Entries {
		c.Entries[k] = v
	}
	return c
}

func (m *LogModel) Empty() bool { return m.Last == 0 }
func (m *LogModel) Len() uint64 {
	if m.Empty() {
		return 0
	}
	return m.Last - m.First + 1
}

// ValidAppend says whether the batch is acceptable: internally consecutive,
// and contiguous with Last unless the log is empty (then any start > 0).
func (m *LogModel) ValidAppend(logs []*raft.Log) bool {
	if len(logs) == 0 {
		return true
	}
	for i := 1; i < len(logs); i++ {
		if logs[i].Index != logs[i-1].Index+1 {
			return false
		}
	}
	if m.Empty() {
		return logs[0].Index > 0
	}
	return logs[0].Index == m.Last+1
}

func (m *LogModel) Append(logs []*raft.Log) {
	if len(logs) == 0 {
		return
	}
	if m.Empty() {
		m.First = logs[0].Index
	}
	for _, l := range logs {
		m.Entries[l.Index] = CloneLog(l)
		m.Last = l.Index
	}
	if m.Last > m.LastEver {
		m.LastEver = m.Last
	}
}

type DelClass int

const (
	DelNoop DelClass = iota
	DelHead
	DelTail
	DelMiddle
)

// ClassifyDelete classifies an inclusive range relative to the current log.
func (m *LogModel) ClassifyDelete(min, max uint64) DelClass {
	if min > max || m.Empty() || max < m.First || min > m.Last {
		return DelNoop
	}
	if min <= m.First {
		return DelHead
	}
	if max >= m.Last {
		return DelTail
	}
	return DelMiddle
}

// Delete applies a prefix/suffix deletion; returns false (and changes nothing) for a middle range.
func (m *LogModel) Delete(min, max uint64) bool {
	switch m.ClassifyDelete(min, max) {
	case DelNoop:
		return true
	case DelMiddle:
		return false
	case DelHead:
		for i := m.First; i <= max && i <= m.Last; i++ {
			delete(m.Entries, i)
		}
		if max >= m.Last {
			m.First, m.Last = 0, 0
		} else {
			m.First = max + 1
		}
	case DelTail:
		for i := min; i <= m.Last; i++ {
			delete(m.Entries, i)
		}
		m.Last = min - 1
	}
	return true
}

func (m *LogModel) Get(i uint64) (*raft.Log, bool) {
	if m.Empty() || i < m.First || i > m.Last {
		return nil, false
	}
	l, ok := m.Entries[i]
	return l, ok
}

func CloneLog(l *raft.Log) *raft.Log {
	c := *l
	if l.Data != nil {
		c.Data = append([]byte{}, l.Data...)
	}
	if l.Extensions != nil {
		c.Extensions = append([]byte{}, l.Extensions...)
	}
	return &c
}

// Equal compares two logs field by field with nil≡empty slices; times must
// denote the same instant and the same zone offset (what MarshalBinary keeps).
func Equal(a, b *raft.Log) bool { return Diff(a, b) == "" }

func Diff(a, b *raft.Log) string {
	if a.Index != b.Index {
		return fmt.Sprintf("Index %d != %d", a.Index, b.Index)
	}
	if a.Term != b.Term {
		return fmt.Sprintf("Term %d != %d", a.Term, b.Term)
	}
	if a.Type != b.Type {
		return fmt.Sprintf("Type %d != %d", a.Type, b.Type)
	}
	if !bytes.Equal(a.Data, b.Data) {
		return fmt.Sprintf("Data differs (len %d vs %d)", len(a.Data), len(b.Data))
	}
	if !bytes.Equal(a.Extensions, b.Extensions) {
		return fmt.Sprintf("Extensions differ (len %d vs %d)", len(a.Extensions), len(b.Extensions))
	}
	if !a.AppendedAt.Equal(b.AppendedAt) {
		return fmt.Sprintf("AppendedAt %v != %v", a.AppendedAt, b.AppendedAt)
	}
	_, ao := a.AppendedAt.Zone()
	_, bo := b.AppendedAt.Zone()
	if ao != bo {
		return fmt.Sprintf("AppendedAt zone offset %d != %d", ao, bo)
	}
	return ""
}
