package refmodel

import (
	"encoding/binary"
	"errors"
	"fmt"
	"hash/crc32"
)

// Independent encoder/decoder for segment files, written from the README
// ("Segment Files", "Frames", "Index Frame", "Commit Frame", "Alignment",
// "Sealing"). One deliberate reading: the CRC of the first commit covers the
// file header too (the header is part of the bytes written since the last
// fsync; golden fixtures of the pinned version confirm it).

const (
	Magic       = 0x58eb6b0d
	HeaderLen   = 32
	FrameHdrLen = 8
	TypeEntry   = 1
	TypeIndex   = 2
	TypeCommit  = 3
)

var castagnoli = crc32.MakeTable(crc32.Castagnoli)

type Header struct {
	BaseIndex, ID, Codec uint64
}

// Group is everything written by one commit: entry payloads, optionally an index, then the commit.
type Group struct {
	Entries  [][]byte
	HasIndex bool
	Index    []uint32 // decoded index (when HasIndex)
	// filled by Decode:
	EntryOffsets []uint32
	IndexOffset  int // offset of the index frame header
	CommitOffset int
	CRC          uint32
}

func FileName(base, id uint64) string { return fmt.Sprintf("%020d-%016x.wal", base, id) }

func pad8(n int) int { return (8 - n%8) % 8 }

func EncodeHeader(h Header) []byte {
	b := make([]byte, HeaderLen)
	binary.LittleEndian.PutUint32(b[0:4], Magic)
	// b[4:7] reserved, b[7] version 0
	binary.LittleEndian.PutUint64(b[8:16], h.BaseIndex)
	binary.LittleEndian.PutUint64(b[16:24], h.ID)
	binary.LittleEndian.PutUint64(b[24:32], h.Codec)
	return b
}

func frame(typ byte, payload []byte) []byte {
	b := make([]byte, FrameHdrLen+len(payload)+pad8(len(payload)))
	b[0] = typ
	binary.LittleEndian.PutUint32(b[4:8], uint32(len(payload)))
	copy(b[FrameHdrLen:], payload)
	return b
}

// EncodeSegment renders a segment: header, then each group's entry frames,
// index frame (offsets of all entry frames of the file so far) if HasIndex, and commit frame.
func EncodeSegment(h Header, groups []Group) []byte {
	out := EncodeHeader(h)
	crcStart := 0
	var offsets []uint32
	for _, g := range groups {
		for _, e := range g.Entries {
			offsets = append(offsets, uint32(len(out)))
			out = append(out, frame(TypeEntry, e)...)
		}
		if g.HasIndex {
			p := make([]byte, 4*len(offsets))
			for i, o := range offsets {
				binary.LittleEndian.PutUint32(p[4*i:], o)
			}
			out = append(out, frame(TypeIndex, p)...)
		}
		c := make([]byte, FrameHdrLen)
		c[0] = TypeCommit
		binary.LittleEndian.PutUint32(c[4:8], crc32.Checksum(out[crcStart:], castagnoli))
		out = append(out, c...)
		crcStart = len(out)
	}
	return out
}

var ErrFormat = errors.New("format violation")

func ferr(format string, a ...any) error {
	return fmt.Errorf("%w: %s", ErrFormat, fmt.Sprintf(format, a...))
}

// DecodeSegment parses a file strictly per the README up to the last commit
// frame (unwritten space after it must be zero) and returns header, groups and
// the length of the committed prefix.
func DecodeSegment(b []byte) (Header, []Group, int, error) {
	var h Header
	if len(b) < HeaderLen {
		return h, nil, 0, ferr("file shorter than the %d-byte header", HeaderLen)
	}
	if binary.LittleEndian.Uint32(b[0:4]) != Magic {
		return h, nil, 0, ferr("bad magic %x", b[0:4])
	}
	if b[4] != 0 || b[5] != 0 || b[6] != 0 {
		return h, nil, 0, ferr("reserved header bytes not zero")
	}
	if b[7] != 0 {
		return h, nil, 0, ferr("version %d", b[7])
	}
	h.BaseIndex = binary.LittleEndian.Uint64(b[8:16])
	h.ID = binary.LittleEndian.Uint64(b[16:24])
	h.Codec = binary.LittleEndian.Uint64(b[24:32])
	var groups []Group
	cur := Group{}
	off := HeaderLen
	crcStart := 0
	committed := 0
	var allOffsets []uint32
	for off+FrameHdrLen <= len(b) {
		typ := b[off]
		if typ == 0 {
			break
		}
		if b[off+1] != 0 || b[off+2] != 0 || b[off+3] != 0 {
			return h, groups, committed, ferr("frame at %d: reserved bytes not zero", off)
		}
		if off%8 != 0 {
			return h, groups, committed, ferr("frame at %d not 8-byte aligned", off)
		}
		v := binary.LittleEndian.Uint32(b[off+4 : off+8])
		switch typ {
		case TypeEntry, TypeIndex:
			end := off + FrameHdrLen + int(v)
			pend := end + pad8(int(v))
			if pend > len(b) {
				return h, groups, committed, ferr("frame at %d (len %d) runs past the end of file", off, v)
			}
			for _, z := range b[end:pend] {
				if z != 0 {
					return h, groups, committed, ferr("frame at %d: non-zero padding", off)
				}
			}
			payload := b[off+FrameHdrLen : end]
			if typ == TypeEntry {
				if cur.HasIndex {
					return h, groups, committed, ferr("entry frame at %d after an index frame", off)
				}
				cur.Entries = append(cur.Entries, append([]byte(nil), payload...))
				cur.EntryOffsets = append(cur.EntryOffsets, uint32(off))
				allOffsets = append(allOffsets, uint32(off))
			} else {
				if cur.HasIndex {
					return h, groups, committed, ferr("second index frame at %d", off)
				}
				if v%4 != 0 {
					return h, groups, committed, ferr("index frame length %d not a multiple of 4", v)
				}
				cur.HasIndex = true
				cur.IndexOffset = off
				for i := 0; i < int(v); i += 4 {
					cur.Index = append(cur.Index, binary.LittleEndian.Uint32(payload[i:]))
				}
				if len(cur.Index) != len(allOffsets) {
					return h, groups, committed, ferr("index frame has %d offsets, file has %d entry frames", len(cur.Index), len(allOffsets))
				}
				for i := range allOffsets {
					if cur.Index[i] != allOffsets[i] {
						return h, groups, committed, ferr("index[%d]=%d but entry frame %d is at offset %d", i, cur.Index[i], i, allOffsets[i])
					}
				}
			}
			off = pend
		case TypeCommit:
			if len(cur.Entries) == 0 && !cur.HasIndex {
				// "a commit frame follows every batch": one that commits nothing is never written
				// (and would check out trivially, the CRC of no bytes being zero)
				return h, groups, committed, ferr("commit frame at %d commits nothing (no entry or index frame since the previous commit)", off)
			}
			want := crc32.Checksum(b[crcStart:off], castagnoli)
			if v != want {
				return h, groups, committed, ferr("commit at %d: CRC %08x, bytes since previous commit hash to %08x", off, v, want)
			}
			cur.CommitOffset = off
			cur.CRC = v
			groups = append(groups, cur)
			cur = Group{}
			off += FrameHdrLen
			crcStart = off
			committed = off
		default:
			return h, groups, committed, ferr("frame at %d: unknown type %d", off, typ)
		}
	}
	if len(cur.Entries) > 0 || cur.HasIndex {
		return h, groups, committed, ferr("frames after the last commit (offset %d) in a quiescent file", committed)
	}
	for i := committed; i < len(b); i++ {
		if b[i] != 0 {
			return h, groups, committed, ferr("non-zero byte at %d after the last commit", i)
		}
	}
	return h, groups, committed, nil
}
