package refmodel

import (
	"errors"
	"time"

	"github.com/hashicorp/raft"
)

// Independent implementation of the documented binary entry codec
// (codec.go comments / README): uvarint Index, uvarint Term, uvarint Type,
// uvarint length + Data, uvarint length + Extensions, time.MarshalBinary.

func uvarint(dst []byte, v uint64) []byte {
	for v >= 0x80 {
		dst = append(dst, byte(v)|0x80)
		v >>= 7
	}
	return append(dst, byte(v))
}

func EncodeLog(l *raft.Log) ([]byte, error) {
	var b []byte
	b = uvarint(b, l.Index)
	b = uvarint(b, l.Term)
	b = uvarint(b, uint64(l.Type))
	b = uvarint(b, uint64(len(l.Data)))
	b = append(b, l.Data...)
	b = uvarint(b, uint64(len(l.Extensions)))
	b = append(b, l.Extensions...)
	tb, err := l.AppendedAt.MarshalBinary()
	if err != nil {
		return nil, err
	}
	return append(b, tb...), nil
}

var ErrBadEncoding = errors.New("refcodec: structurally invalid encoding")

func readUvarint(b []byte) (uint64, []byte, error) {
	var v uint64
	var shift uint
	for i := 0; i < len(b); i++ {
		c := b[i]
		if i == 9 && c > 1 {
			return 0, nil, ErrBadEncoding // overflows 64 bits
		}
		if c < 0x80 {
			return v | uint64(c)<<shift, b[i+1:], nil
		}
		if i == 9 {
			return 0, nil, ErrBadEncoding
		}
		v |= uint64(c&0x7f) << shift
		shift += 7
	}
	return 0, nil, ErrBadEncoding // ran out of bytes
}

// DecodeLog decodes strictly; any structural problem is ErrBadEncoding.
func DecodeLog(b []byte) (*raft.Log, error) {
	var l raft.Log
	var err error
	var v uint64
	if l.Index, b, err = readUvarint(b); err != nil {
		return nil, err
	}
	if l.Term, b, err = readUvarint(b); err != nil {
		return nil, err
	}
	if v, b, err = readUvarint(b); err != nil {
		return nil, err
	}
	l.Type = raft.LogType(v)
	for _, dst := range []*[]byte{&l.Data, &l.Extensions} {
		if v, b, err = readUvarint(b); err != nil {
			return nil, err
		}
		if v > uint64(len(b)) {
			return nil, ErrBadEncoding
		}
		if v > 0 {
			*dst = append([]byte{}, b[:v]...)
		}
		b = b[v:]
	}
	var t time.Time
	if err := t.UnmarshalBinary(b); err != nil {
		return nil, ErrBadEncoding
	}
	l.AppendedAt = t
	return &l, nil
}

// EncodedLen returns the encoded size of l.
func EncodedLen(l *raft.Log) int {
	b, err := EncodeLog(l)
	if err != nil {
		return -1
	}
	return len(b)
}
