package sched

import (
	"errors"
	"fmt"
	"runtime"
	"strings"
	"sync"
	"sync/atomic"
	"testing"
	"time"

	"github.com/hashicorp/raft"
	wal "github.com/hashicorp/raft-wal"
	"pgregory.net/rapid"

	"verifharness/common"
	"verifharness/kit"
	"verifharness/refmodel"
	"verifharness/simfs"
)

// WOp is one writer step; ROp one reader step.
type WOp struct {
	K     string `json:"k"` // append, delhead, deltail, delall
	N     int    `json:"n,omitempty"`
	Size  int    `json:"size,omitempty"`
	A     int    `json:"a,omitempty"`
	Start uint64 `json:"start,omitempty"` // start index when the log is empty
}

type ROp struct {
	K   string `json:"k"` // get, first, last
	Rel string `json:"rel,omitempty"`
	Off int    `json:"off,omitempty"`
}

type C06Case struct {
	SegSize int     `json:"seg"`
	Pre     int     `json:"pre"` // entries before the concurrent phase
	Writer  []WOp   `json:"writer"`
	Readers [][]ROp `json:"readers"`
	Choices []int   `json:"choices"`
	Free    bool    `json:"free,omitempty"`   // free-running (no controller); used with -race
	Reopen  bool    `json:"reopen,omitempty"` // close and reopen after the prefix: sealed segments are then read through their on-disk index
	// FailOrd>0: the FailOrd-th WriteAt/SyncFile (FailKind) that the writer issues inside an append of the
	// concurrent phase returns an error once; that StoreLogs fails and its entries must never be seen
	FailOrd  int    `json:"failOrd,omitempty"`
	FailKind string `json:"failKind,omitempty"`
}

func genWriter(t *rapid.T, n int) []WOp {
	var ops []WOp
	for i := 0; i < n; i++ {
		k := rapid.IntRange(0, 99).Draw(t, "wk")
		switch {
		case k < 55:
			ops = append(ops, WOp{K: "append", N: rapid.IntRange(1, 3).Draw(t, "n"), Size: rapid.SampledFrom([]int{5, 40, 90, 200}).Draw(t, "size"), Start: rapid.SampledFrom([]uint64{1, 3, 50}).Draw(t, "start")})
		case k < 72:
			ops = append(ops, WOp{K: "delhead", A: rapid.IntRange(0, 3).Draw(t, "a")})
		case k < 92:
			// tail truncation is followed by a re-append of different content at the same indexes
			ops = append(ops, WOp{K: "deltail", A: rapid.IntRange(0, 3).Draw(t, "a")}, WOp{K: "append", N: rapid.IntRange(1, 3).Draw(t, "n2"), Size: rapid.SampledFrom([]int{5, 40, 90}).Draw(t, "size2")})
		default:
			ops = append(ops, WOp{K: "delall"}, WOp{K: "append", N: 2, Size: 30, Start: rapid.SampledFrom([]uint64{1, 3, 50, 0}).Draw(t, "restart")})
		}
	}
	return ops
}

func genReaders(t *rapid.T, r, n int) [][]ROp {
	var out [][]ROp
	for i := 0; i < r; i++ {
		var ops []ROp
		for j := 0; j < n; j++ {
			k := rapid.IntRange(0, 9).Draw(t, "rk")
			switch {
			case k < 7:
				ops = append(ops, ROp{K: "get", Rel: rapid.SampledFrom([]string{"first", "first", "last", "last", "last", "mid"}).Draw(t, "rel"), Off: rapid.IntRange(-1, 3).Draw(t, "off")})
			case k < 8:
				ops = append(ops, ROp{K: "first"})
			default:
				ops = append(ops, ROp{K: "last"})
			}
		}
		out = append(out, ops)
	}
	return out
}

func genC06(free bool) func(t *rapid.T) C06Case {
	return func(t *rapid.T) C06Case {
		c := C06Case{Free: free, SegSize: rapid.SampledFrom([]int{128, 256, 512}).Draw(t, "seg"), Pre: rapid.IntRange(0, 6).Draw(t, "pre")}
		c.Reopen = rapid.Bool().Draw(t, "reopen")
		if c.Reopen {
			c.Pre = rapid.IntRange(4, 14).Draw(t, "pre2")
		}
		if free {
			c.Writer = genWriter(t, rapid.IntRange(10, 60).Draw(t, "nw"))
			c.Readers = genReaders(t, rapid.SampledFrom([]int{1, 2, 4, 8}).Draw(t, "nr"), rapid.IntRange(20, 200).Draw(t, "nrops"))
			return c
		}
		c.Writer = genWriter(t, rapid.IntRange(1, 5).Draw(t, "nw"))
		c.Readers = genReaders(t, rapid.SampledFrom([]int{1, 2, 2, 4}).Draw(t, "nr"), rapid.IntRange(1, 6).Draw(t, "nrops"))
		for i := 0; i < rapid.IntRange(10, 120).Draw(t, "nchoices"); i++ {
			c.Choices = append(c.Choices, rapid.IntRange(0, 9).Draw(t, "ch"))
		}
		if rapid.IntRange(0, 2).Draw(t, "withFault") == 0 {
			c.FailOrd = rapid.IntRange(1, 5).Draw(t, "failOrd")
			c.FailKind = rapid.SampledFrom([]string{"SyncFile", "SyncFile", "WriteAt"}).Draw(t, "failKind")
		}
		return c
	}
}

// version is one log state with the tick interval in which it may have been current.
type version struct {
	m           *refmodel.LogModel
	from, until int64 // possibly-current from tick `from` (inclusive) to `until` (inclusive; MaxInt64 while latest)
	kind        string
}

type readRec struct {
	op       ROp
	idx      uint64
	inv, ret int64
	err      error
	log      raft.Log
	val      uint64
	reader   int
}

const maxTick = int64(1) << 62

func runC06(c C06Case) (res common.Result) {
	hookMu.Lock()
	defer hookMu.Unlock()
	fs := simfs.New()
	cfg := kit.Cfg{SegSize: c.SegSize, FS: fs}
	w, err := cfg.Open()
	if err != nil {
		res.Fail = common.Failf("open-fresh", "%v", err)
		return
	}
	defer func() { w.Close() }()
	m := refmodel.NewLogModel()
	for i := 0; i < c.Pre; i++ {
		l := kit.EntrySpec{DataLen: 40, Seed: uint8(i)}.Make(uint64(i+1), 0)
		if err := w.StoreLogs([]*raft.Log{l}); err != nil {
			res.Fail = common.Failf("harness", "%v", err)
			return
		}
		m.Append([]*raft.Log{l})
		kit.Barrier(w)
	}
	if c.Reopen {
		w.Close()
		if w, err = cfg.Open(); err != nil {
			res.Fail = common.Failf("reopen-err", "%v", err)
			return
		}
	}
	var tick atomic.Int64
	var vmu sync.Mutex
	versions := []*version{{m: m.Clone(), from: 0, until: maxTick, kind: "initial"}}
	var latest atomic.Pointer[refmodel.LogModel]
	latest.Store(m.Clone())
	// visibleFrom: earliest tick at which the op in progress may become visible
	var writerGid atomic.Uint64
	var visibleFrom atomic.Int64
	var curKind atomic.Value
	curKind.Store("")

	var ctl *Ctl
	if !c.Free {
		ctl = New()
		ctl.BlockWait = time.Millisecond
		ctl.Filter = func(worker, point string) bool {
			if strings.HasPrefix(point, "io:") {
				return strings.HasPrefix(point, "io:WriteAt") || strings.HasPrefix(point, "io:SyncFile") || strings.HasPrefix(point, "io:CommitState") ||
					strings.HasPrefix(point, "io:Create") || strings.HasPrefix(point, "io:ReadAt") || strings.HasPrefix(point, "io:Unlink")
			}
			return !strings.HasPrefix(point, "Close")
		}
		wal.SetVerifHook(ctl.Point)
	}
	var failSeen atomic.Int64
	var faultHit atomic.Bool
	errInjected := errors.New("verif: injected I/O error")
	fs.SetHook(func(ev simfs.Event) (int, error) {
		fail := false
		if gid() == writerGid.Load() {
			k := curKind.Load().(string)
			if c.FailOrd > 0 && k == "append" && string(ev.Kind) == c.FailKind && failSeen.Add(1) == int64(c.FailOrd) {
				fail = true
			}
			if !fail && ((k == "append" && ev.Kind == simfs.KSyncFile) || (k != "append" && ev.Kind == simfs.KCommitState && visibleFrom.Load() == 0)) {
				visibleFrom.Store(tick.Add(1))
			}
		}
		if ctl != nil {
			ctl.Point("io:" + string(ev.Kind))
		}
		if fail {
			faultHit.Store(true)
			return -1, errInjected
		}
		return -1, nil
	})
	defer func() {
		wal.SetVerifHook(nil)
		fs.SetHook(nil)
	}()

	var writerFail *common.Failure
	var failedAppends atomic.Int64
	writer := func() {
		writerGid.Store(gid())
		gen := uint8(1)
		cur := m.Clone()
		for i, op := range c.Writer {
			next := cur.Clone()
			var err error
			start := tick.Add(1)
			visibleFrom.Store(0)
			switch op.K {
			case "append":
				curKind.Store("append")
				s := cur.Last + 1
				if cur.Empty() {
					s = op.Start
					if s == 0 {
						s = 1
					}
				}
				var logs []*raft.Log
				for j := 0; j < op.N; j++ {
					logs = append(logs, kit.EntrySpec{DataLen: op.Size + j, Seed: uint8(i*7 + j)}.Make(s+uint64(j), gen))
				}
				err = w.StoreLogs(logs)
				next.Append(logs)
			default:
				curKind.Store("del")
				if cur.Empty() {
					continue
				}
				var min, max uint64
				switch op.K {
				case "delhead":
					min, max = cur.First, cur.First+uint64(op.A)
				case "deltail":
					min, max = cur.Last-uint64(op.A)%cur.Len(), cur.Last
				default:
					min, max = cur.First, cur.Last
				}
				err = w.DeleteRange(min, max)
				next.Delete(min, max)
				gen++
			}
			end := tick.Add(1)
			if err != nil && errors.Is(err, errInjected) && op.K == "append" {
				// the append failed on the injected error: the log is what it was, and nothing of the
				// failed batch may ever be visible (no version contains it)
				failedAppends.Add(1)
				continue
			}
			if err != nil {
				writerFail = common.Failf("writer-err", "writer step %d %v = %v", i, op, err)
				return
			}
			vf := visibleFrom.Load()
			if vf == 0 {
				vf = start // no I/O observed (e.g. a no-op): visible at any time in the call
			}
			vmu.Lock()
			// the previous version may stay current until this call returned
			versions[len(versions)-1].until = end
			versions = append(versions, &version{m: next.Clone(), from: vf, until: maxTick, kind: op.K})
			vmu.Unlock()
			cur = next
			latest.Store(cur.Clone())
		}
	}
	recs := make([][]readRec, len(c.Readers))
	reader := func(ri int) func() {
		return func() {
			for _, op := range c.Readers[ri] {
				lm := latest.Load()
				r := readRec{op: op, reader: ri}
				switch op.K {
				case "get":
					switch op.Rel {
					case "first":
						r.idx = lm.First
					case "last":
						r.idx = lm.Last
					default:
						r.idx = lm.First + lm.Len()/2
					}
					if op.Off < 0 && r.idx > 0 {
						r.idx--
					} else {
						r.idx += uint64(op.Off)
					}
					r.inv = tick.Add(1)
					r.err = w.GetLog(r.idx, &r.log)
					r.ret = tick.Add(1)
				case "first":
					r.inv = tick.Add(1)
					r.val, r.err = w.FirstIndex()
					r.ret = tick.Add(1)
				case "last":
					r.inv = tick.Add(1)
					r.val, r.err = w.LastIndex()
					r.ret = tick.Add(1)
				}
				recs[ri] = append(recs[ri], r)
				if c.Free {
					runtime.Gosched()
				}
			}
		}
	}
	var panicked atomic.Value
	guardGo := func(fn func()) func() {
		return func() {
			defer func() {
				if p := recover(); p != nil {
					buf := make([]byte, 4000)
					panicked.Store(fmt.Sprintf("%v\n%s", p, buf[:runtime.Stack(buf, false)]))
				}
			}()
			fn()
		}
	}
	if c.Free {
		var wg sync.WaitGroup
		wg.Add(1 + len(c.Readers))
		go func() { defer wg.Done(); guardGo(writer)() }()
		for i := range c.Readers {
			i := i
			go func() { defer wg.Done(); guardGo(reader(i))() }()
		}
		wg.Wait()
	} else {
		ctl.Go("writer", guardGo(writer))
		for i := range c.Readers {
			ctl.Go(fmt.Sprintf("r%d", i), guardGo(reader(i)))
		}
		ctl.Run(c.Choices, nil)
		stuck, dump := ctl.Finish(5 * time.Second)
		if len(stuck) > 0 {
			if st := ctl.WorkerStacks(dump, stuck); strings.Contains(st, "raft-wal") {
				res.Fail = common.Failf("deadlock", "workers %v are parked for good inside raft-wal (same state in two dumps, every goroutine released):\n%s", stuck, st)
				return
			}
			common.Inconclusive("workers %v parked outside raft-wal", stuck)
		}
		res.Note = strings.Join(ctl.Trace, " ")
		if len(res.Note) > 500 {
			res.Note = res.Note[:500]
		}
	}
	if p := panicked.Load(); p != nil {
		res.Fail = common.Failf("panic", "panic during concurrent reads/writes: %v", p)
		return
	}
	if writerFail != nil {
		res.Fail = writerFail
		return
	}
	// judge every read
	overlaps := 0
	kinds := map[string]bool{}
	for _, rr := range recs {
		for _, r := range rr {
			var cand []*version
			for _, v := range versions {
				if v.from <= r.ret && v.until >= r.inv {
					cand = append(cand, v)
				}
			}
			if len(cand) == 0 {
				panic("no candidate version for a read: oracle bug")
			}
			if len(cand) > 1 {
				overlaps++
				for _, v := range cand[1:] {
					kinds[v.kind] = true
				}
			}
			ok := false
			desc := ""
			switch r.op.K {
			case "first", "last":
				if r.err != nil {
					res.Fail = common.Failf("read-err/"+r.op.K, "%sIndex returned %v", r.op.K, r.err)
					return
				}
				for _, v := range cand {
					if (r.op.K == "first" && v.m.First == r.val) || (r.op.K == "last" && v.m.Last == r.val) {
						ok = true
					}
					desc += fmt.Sprintf("[%d,%d] ", v.m.First, v.m.Last)
				}
				if !ok {
					res.Fail = common.Failf("stale-or-early/"+r.op.K, "reader %d: %sIndex returned %d during ticks [%d,%d]; log states possibly current in that interval: %s", r.reader, r.op.K, r.val, r.inv, r.ret, desc)
					return
				}
			case "get":
				presentIn, absentIn := -1, -1
				for ci, v := range cand {
					want, has := v.m.Get(r.idx)
					desc += fmt.Sprintf("[%d,%d] ", v.m.First, v.m.Last)
					if has {
						if presentIn < 0 {
							presentIn = ci
						}
						if r.err == nil && refmodel.Diff(want, &r.log) == "" {
							ok = true
						}
					} else {
						if absentIn < 0 || true {
							absentIn = ci
						}
						if errors.Is(r.err, raft.ErrLogNotFound) {
							ok = true
						}
					}
				}
				if !ok && r.err != nil && !errors.Is(r.err, raft.ErrLogNotFound) {
					// another error: only if the index was removed during the read (present earlier, absent later)
					if presentIn >= 0 && absentIn > presentIn {
						ok = true
						kinds["error-on-removed-index"] = true
					}
				}
				if !ok {
					sig := "wrong-read"
					if r.err == nil {
						sig = "wrong-entry"
					} else if errors.Is(r.err, raft.ErrLogNotFound) {
						sig = "missing-entry"
					} else {
						sig = "read-error"
					}
					res.Fail = common.Failf(sig, "reader %d: GetLog(%d) during ticks [%d,%d] returned err=%v (entry index=%d len=%d); log states possibly current in that interval: %s", r.reader, r.idx, r.inv, r.ret, r.err, r.log.Index, len(r.log.Data), desc)
					return
				}
			}
		}
	}
	res.NonTrivial = overlaps > 0
	if overlaps > 0 {
		res.Classes = append(res.Classes, "read-overlaps-version-change")
	}
	if c.Reopen {
		res.Classes = append(res.Classes, "sealed-segments-read-from-disk-index")
	}
	if failedAppends.Load() > 0 {
		res.Classes = append(res.Classes, "append-failed-under-concurrent-readers")
	}
	for k := range kinds {
		res.Classes = append(res.Classes, "overlap:"+k)
	}
	res.Sub = 0
	for _, rr := range recs {
		res.Sub += len(rr)
	}
	if res.Sub == 0 {
		res.Sub = 1
	}
	return
}

func TestC06Controlled(t *testing.T) {
	common.Run(t, "C06", "C06Controlled", genC06(false), runC06)
}

// TestC06Free runs without the controller; the driver builds it with -race.
func TestC06Free(t *testing.T) {
	common.Run(t, "C06", "C06Free", genC06(true), runC06)
}
