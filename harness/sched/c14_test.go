package sched

import (
	"errors"
	"fmt"
	"runtime"
	"strings"
	"sync"
	"testing"
	"time"

	"github.com/hashicorp/raft"
	wal "github.com/hashicorp/raft-wal"
	"pgregory.net/rapid"

	"verifharness/common"
	"verifharness/kit"
	"verifharness/refmodel"
	"verifharness/simfs"
)

func TestMain(m *testing.M) { common.Main(m) }

// hookMu serialises cases: the verif hook is process-global.
var hookMu sync.Mutex

type Call struct {
	K   string `json:"k"` // getlog, first, last, store, storeseal, sealthenstore, storereset, delhead, deltail, set, get, close
	Arg int    `json:"arg,omitempty"`
}

type C14Case struct {
	SegSize  int    `json:"seg"`
	PreN     int    `json:"preN"`            // entries appended before (one per batch)
	PreDel   int    `json:"preDel"`          // head entries deleted before
	Calls    []Call `json:"calls"`           // concurrent calls; Close is added as the last worker
	Choices  []int  `json:"choices"`         // schedule
	Target   int    `json:"target"`          // worker whose window Close should fall into (bias)
	HoldAt   int    `json:"holdAt"`          // how many points the target passes before Close is driven
	CloseErr bool   `json:"closeErr"`        // the MetaStore's Close reports an error (it is closed all the same)
	Start    uint64 `json:"start,omitempty"` // index of the first entry (other than 1: the empty first segment is re-based)
}

var readKinds = []string{"getlog", "first", "last", "get"}
var writeKinds = []string{"store", "storeseal", "sealthenstore", "sealthenstore", "sealthendel", "sealthendel", "delhead", "deltail", "set"}

func genC14(t *rapid.T) C14Case {
	c := C14Case{SegSize: rapid.SampledFrom([]int{128, 256}).Draw(t, "seg")}
	c.PreN = rapid.IntRange(1, 8).Draw(t, "preN")
	c.PreDel = rapid.IntRange(0, 2).Draw(t, "preDel")
	n := rapid.IntRange(1, 4).Draw(t, "ncalls")
	writer := false
	for i := 0; i < n; i++ {
		var k string
		if !writer && rapid.IntRange(0, 2).Draw(t, "w") > 0 {
			k = rapid.SampledFrom(writeKinds).Draw(t, "wk")
			if k != "set" {
				writer = true
			}
		} else {
			k = rapid.SampledFrom(readKinds).Draw(t, "rk")
		}
		c.Calls = append(c.Calls, Call{K: k, Arg: rapid.IntRange(0, 9).Draw(t, "arg")})
	}
	if rapid.IntRange(0, 4).Draw(t, "close2") == 0 {
		c.Calls = append(c.Calls, Call{K: "close"})
	}
	for i := 0; i < rapid.IntRange(0, 40).Draw(t, "nchoices"); i++ {
		c.Choices = append(c.Choices, rapid.IntRange(0, 7).Draw(t, "ch"))
	}
	c.Target = rapid.IntRange(0, len(c.Calls)-1).Draw(t, "target")
	c.HoldAt = rapid.IntRange(1, 14).Draw(t, "holdAt")
	c.CloseErr = rapid.IntRange(0, 4).Draw(t, "closeErr") == 0
	c.Start = rapid.SampledFrom([]uint64{1, 1, 1, 1000}).Draw(t, "start")
	return c
}

type callResult struct {
	call      Call
	err       error
	val       uint64
	log       raft.Log
	idx       uint64
	logs      []*raft.Log
	min       uint64
	max       uint64
	panicV    any
	stack     string
	done      bool
	second    error // sealthenstore: error of the second StoreLogs; sealthendel: of the DeleteRange
	didSecond bool
	logs2     []*raft.Log
	started   bool
}

func bigEntry(seg int) kit.EntrySpec { return kit.EntrySpec{DataLen: seg + 8, Seed: 77} }

func runC14(c C14Case) (res common.Result) {
	hookMu.Lock()
	defer hookMu.Unlock()
	fs := simfs.New()
	cfg := kit.Cfg{SegSize: c.SegSize, FS: fs}
	if c.CloseErr {
		cfg.MetaCloseErr = errors.New("injected meta store close error")
	}
	w, err := cfg.Open()
	if err != nil {
		res.Fail = common.Failf("open-fresh", "%v", err)
		return
	}
	m := refmodel.NewLogModel()
	base := c.Start
	if base == 0 {
		base = 1
	}
	for i := 0; i < c.PreN; i++ {
		l := kit.EntrySpec{DataLen: 40, Seed: uint8(i)}.Make(base+uint64(i), 0)
		if err := w.StoreLogs([]*raft.Log{l}); err != nil {
			res.Fail = common.Failf("harness", "prefix append: %v", err)
			return
		}
		m.Append([]*raft.Log{l})
		kit.Barrier(w)
	}
	if c.PreDel > 0 && c.PreDel < c.PreN {
		if err := w.DeleteRange(base, base+uint64(c.PreDel)-1); err != nil {
			res.Fail = common.Failf("harness", "prefix delete: %v", err)
			return
		}
		m.Delete(base, base+uint64(c.PreDel)-1)
	}
	w.Set([]byte("k"), []byte("v0"))
	v0 := m.Clone()

	ctl := New()
	ctl.Filter = func(worker, point string) bool {
		if strings.HasPrefix(point, "io:") {
			// park at mutating I/O and at reads; skip the noisy rest
			return strings.HasPrefix(point, "io:WriteAt") || strings.HasPrefix(point, "io:SyncFile") || strings.HasPrefix(point, "io:CommitState") ||
				strings.HasPrefix(point, "io:Create") || strings.HasPrefix(point, "io:ReadAt") || strings.HasPrefix(point, "io:Unlink")
		}
		return true
	}
	wal.SetVerifHook(ctl.Point)
	fs.SetHook(func(ev simfs.Event) (int, error) {
		ctl.Point("io:" + string(ev.Kind))
		return -1, nil
	})
	defer func() {
		wal.SetVerifHook(nil)
		fs.SetHook(nil)
	}()

	results := make([]*callResult, len(c.Calls)+1)
	calls := append(append([]Call{}, c.Calls...), Call{K: "close"})
	var closeWorker string
	for i, call := range calls {
		r := &callResult{call: call}
		results[i] = r
		name := fmt.Sprintf("w%d-%s", i, call.K)
		if i == len(calls)-1 {
			closeWorker = name
		}
		i, call := i, call
		_ = i
		ctl.Go(name, func() {
			defer func() {
				if p := recover(); p != nil {
					buf := make([]byte, 4000)
					r.panicV = p
					r.stack = string(buf[:runtime.Stack(buf, false)])
				}
				r.done = true
			}()
			r.started = true
			first, last := v0.First, v0.Last
			switch call.K {
			case "getlog":
				r.idx = first + uint64(call.Arg)%(v0.Len()+2)
				r.err = w.GetLog(r.idx, &r.log)
			case "first":
				r.val, r.err = w.FirstIndex()
			case "last":
				r.val, r.err = w.LastIndex()
			case "get":
				_, r.err = w.Get([]byte("k"))
			case "set":
				r.err = w.Set([]byte("k"), []byte("v1"))
			case "store":
				r.logs = []*raft.Log{kit.EntrySpec{DataLen: 10, Seed: 200}.Make(last+1, 1)}
				r.err = w.StoreLogs(r.logs)
			case "storeseal":
				r.logs = []*raft.Log{bigEntry(c.SegSize).Make(last+1, 1)}
				r.err = w.StoreLogs(r.logs)
			case "sealthenstore":
				r.logs = []*raft.Log{bigEntry(c.SegSize).Make(last+1, 1)}
				r.err = w.StoreLogs(r.logs)
				if r.err == nil {
					r.logs2 = []*raft.Log{kit.EntrySpec{DataLen: 10, Seed: 201}.Make(last+2, 1)}
					r.second = w.StoreLogs(r.logs2)
				}
			case "sealthendel":
				// a truncation issued right behind the append that filled the segment: it has to wait
				// for the queued rotation (it lets go of the write lock meanwhile)
				r.logs = []*raft.Log{bigEntry(c.SegSize).Make(last+1, 1)}
				r.err = w.StoreLogs(r.logs)
				if r.err == nil {
					r.min, r.max = first, first+uint64(call.Arg)%v0.Len()
					r.second = w.DeleteRange(r.min, r.max)
					r.didSecond = true
				}
			case "delhead":
				r.min, r.max = first, first+uint64(call.Arg)%v0.Len()
				r.err = w.DeleteRange(r.min, r.max)
			case "deltail":
				r.min, r.max = last-uint64(call.Arg)%v0.Len(), last
				r.err = w.DeleteRange(r.min, r.max)
			case "close":
				r.err = w.Close()
			}
		})
	}
	// bias: let the target pass HoldAt points, then prefer driving Close while the target stays parked
	targetName := fmt.Sprintf("w%d-%s", c.Target, c.Calls[c.Target].K)
	passed := 0
	closeInside := false
	prefer := func(step int, parked map[string]string) string {
		if passed < c.HoldAt {
			if _, ok := parked[targetName]; ok {
				passed++
				return targetName
			}
			return ""
		}
		if _, ok := parked[closeWorker]; ok && step < c.HoldAt+6 {
			if _, tp := parked[targetName]; tp {
				closeInside = true
			}
			return closeWorker
		}
		return ""
	}
	choices := append([]int{}, c.Choices...)
	for len(choices) < c.HoldAt+8 {
		choices = append(choices, 0)
	}
	ctl.Run(choices, prefer)
	stuck, dump := ctl.Finish(3 * time.Second)
	cls := map[string]bool{}
	if closeInside {
		cls["close-inside-call-window"] = true
	}
	if c.CloseErr {
		cls["metastore-close-error"] = true
	}
	defer func() {
		for k := range cls {
			res.Classes = append(res.Classes, k)
		}
		res.Note = strings.Join(ctl.Trace, " ")
		if len(res.Note) > 600 {
			res.Note = res.Note[:600]
		}
	}()
	if len(stuck) > 0 {
		if st := ctl.WorkerStacks(dump, stuck); strings.Contains(st, "raft-wal") {
			res.Fail = common.Failf("deadlock", "workers %v never returned after every goroutine had been released; they are parked for good inside raft-wal (same state in two dumps):\n%s\nschedule: %v", stuck, st, ctl.Trace)
			return
		}
		common.Inconclusive("workers %v parked outside raft-wal", stuck)
	}
	// judge the calls
	versions := []*refmodel.LogModel{v0}
	final := v0.Clone()
	for _, r := range results {
		if r.panicV != nil {
			res.Fail = common.Failf("panic/"+r.call.K, "%s racing with Close panicked: %v\n%s\nschedule: %v", r.call.K, r.panicV, r.stack, ctl.Trace)
			return
		}
		switch r.call.K {
		case "store", "storeseal", "sealthenstore":
			if r.err == nil {
				final.Append(r.logs)
				versions = append(versions, final.Clone())
				if r.call.K == "sealthenstore" && r.second == nil && r.logs2 != nil {
					final.Append(r.logs2)
					versions = append(versions, final.Clone())
				}
			}
		case "sealthendel":
			if r.err == nil {
				final.Append(r.logs)
				versions = append(versions, final.Clone())
				if r.didSecond && r.second == nil {
					final.Delete(r.min, r.max)
					versions = append(versions, final.Clone())
				}
			}
		case "delhead", "deltail":
			if r.err == nil {
				final.Delete(r.min, r.max)
				versions = append(versions, final.Clone())
			}
		}
	}
	for _, r := range results {
		bad := func(e error) bool { return e != nil && !errors.Is(e, wal.ErrClosed) }
		switch r.call.K {
		case "getlog":
			if r.err == nil {
				ok := false
				for _, v := range versions {
					if want, has := v.Get(r.idx); has && refmodel.Diff(want, &r.log) == "" {
						ok = true
					}
				}
				if !ok {
					res.Fail = common.Failf("wrong-data/getlog", "GetLog(%d) racing with Close returned an entry that no log state contained", r.idx)
					return
				}
			} else if errors.Is(r.err, raft.ErrLogNotFound) {
				ok := false
				for _, v := range versions {
					if _, has := v.Get(r.idx); !has {
						ok = true
					}
				}
				if !ok {
					res.Fail = common.Failf("wrong-data/getlog-notfound", "GetLog(%d) racing with Close returned ErrLogNotFound but every log state contained it", r.idx)
					return
				}
			} else if bad(r.err) {
				res.Fail = common.Failf("wrong-error/getlog", "GetLog(%d) racing with Close returned %q (neither a result nor ErrClosed); schedule: %v", r.idx, r.err, ctl.Trace)
				return
			}
		case "first", "last":
			if r.err == nil {
				ok := false
				for _, v := range versions {
					if (r.call.K == "first" && v.First == r.val) || (r.call.K == "last" && v.Last == r.val) {
						ok = true
					}
				}
				if !ok {
					res.Fail = common.Failf("wrong-data/"+r.call.K, "%sIndex racing with Close returned %d; log states were %v", r.call.K, r.val, boundsOf(versions))
					return
				}
			} else if bad(r.err) {
				res.Fail = common.Failf("wrong-error/"+r.call.K, "%sIndex racing with Close returned %q", r.call.K, r.err)
				return
			}
		case "close":
			if bad(r.err) && !(c.CloseErr && cfg.MetaCloseErr != nil && errors.Is(r.err, cfg.MetaCloseErr)) {
				res.Fail = common.Failf("wrong-error/close", "Close returned %q", r.err)
				return
			}
		case "get", "set", "store", "storeseal", "delhead", "deltail":
			if bad(r.err) {
				res.Fail = common.Failf("wrong-error/"+r.call.K, "%s racing with Close returned %q (neither success nor ErrClosed); schedule: %v", r.call.K, r.err, ctl.Trace)
				return
			}
		case "sealthenstore", "sealthendel":
			if bad(r.err) || bad(r.second) {
				res.Fail = common.Failf("wrong-error/store", "StoreLogs racing with Close returned %v / %v", r.err, r.second)
				return
			}
		}
		if r.err != nil {
			cls["got-ErrClosed"] = true
		}
	}
	// after Close: everything returns ErrClosed, Close is idempotent
	var l raft.Log
	_, e1 := w.FirstIndex()
	_, e2 := w.LastIndex()
	e3 := w.GetLog(v0.First, &l)
	e4 := w.StoreLogs([]*raft.Log{{Index: final.Last + 1}})
	e5 := w.DeleteRange(1, 1)
	e6 := w.Set([]byte("k"), []byte("x"))
	_, e7 := w.Get([]byte("k"))
	for i, e := range []error{e1, e2, e3, e4, e5, e6, e7} {
		if !errors.Is(e, wal.ErrClosed) {
			res.Fail = common.Failf("not-final", "after Close returned, method #%d (FirstIndex,LastIndex,GetLog,StoreLogs,DeleteRange,Set,Get) returned %v instead of ErrClosed", i, e)
			return
		}
	}
	if err := w.Close(); err != nil {
		res.Fail = common.Failf("close-not-idempotent", "second Close = %v", err)
		return
	}
	// the rotation goroutine has exited and all handles are released. A goroutine that is
	// still around is a leak only if it is parked (same state in two dumps): after Close
	// closed its channel it is runnable and merely needs CPU time to exit.
	prevState := ""
	for i := 0; ; i++ {
		buf := make([]byte, 1<<20)
		dump := string(buf[:runtime.Stack(buf, true)])
		state := ""
		for _, g := range strings.Split(dump, "\n\n") {
			if strings.Contains(g, "raft-wal.(*WAL).runRotate") {
				state = strings.SplitN(g, "\n", 2)[0]
				if j := strings.Index(state, "["); j >= 0 {
					state = state[j:]
				}
			}
		}
		if state == "" {
			break
		}
		parked := strings.HasPrefix(state, "[chan receive") || strings.HasPrefix(state, "[semacquire") || strings.HasPrefix(state, "[sync.Mutex.Lock") || strings.HasPrefix(state, "[select")
		if parked && state == prevState && i >= 2 {
			res.Fail = common.Failf("rotation-goroutine-leak", "after Close returned the rotation goroutine is still parked %s (same state in consecutive dumps): it never exits", state)
			return
		}
		prevState = state
		if i > 600 {
			common.Inconclusive("rotation goroutine neither exits nor is provably parked")
		}
		time.Sleep(200 * time.Millisecond)
	}
	if n := fs.OpenHandles(); n != 0 {
		res.Fail = common.Failf("handles-leak", "after Close and all calls returned, %d file handles are still open", n)
		return
	}
	// everything acknowledged before Close is there after the next Open
	fs.SetHook(nil)
	wal.SetVerifHook(nil)
	w2, err := cfg.Open()
	if err != nil {
		res.Fail = common.Failf("reopen-err", "Open after Close = %v", err)
		return
	}
	defer w2.Close()
	if sig, msg := kit.CheckAgainst(w2, final, nil); sig != "" {
		res.Fail = common.Failf("acked-lost-after-close/"+sig, "after Close and reopen: %s (acknowledged calls: %d versions; schedule %v)", msg, len(versions), ctl.Trace)
		return
	}
	// and the reopened WAL accepts appends (a rotation that Close cut short must be completed by Open)
	nl := kit.EntrySpec{DataLen: 5, Seed: 9}.Make(final.Last+1, 3)
	if final.Empty() {
		nl = kit.EntrySpec{DataLen: 5, Seed: 9}.Make(1, 3)
	}
	if err := w2.StoreLogs([]*raft.Log{nl}); err != nil {
		res.Fail = common.Failf("append-refused-after-close", "after Close racing with a segment-filling append and a reopen, StoreLogs(%d) = %v; schedule %v", nl.Index, err, ctl.Trace)
		return
	}
	// ... and keeps them: a second clean Close and Open shows that entry too, and the directory
	// holds exactly the files the metadata names (Close is final for one instance, not for the log)
	final.Append([]*raft.Log{nl})
	if err := w2.Close(); err != nil && cfg.MetaCloseErr == nil {
		// (with an injected MetaStore.Close error the same error is expected here again)
		res.Fail = common.Failf("second-close-err", "Close of the reopened WAL = %v", err)
		return
	}
	w3, err := cfg.Open()
	if err != nil {
		res.Fail = common.Failf("second-reopen-err", "second Open after Close = %v (acknowledged [%d,%d]; schedule %v)", err, final.First, final.Last, ctl.Trace)
		return
	}
	defer w3.Close()
	if sig, msg := kit.CheckAgainst(w3, final, nil); sig != "" {
		res.Fail = common.Failf("acked-lost-after-second-reopen/"+sig, "entry %d was acknowledged by the instance opened after Close; after its own Close and another Open: %s (schedule %v)", nl.Index, msg, ctl.Trace)
		return
	}
	if extra, missing := kit.DirVsMeta(fs); len(extra)+len(missing) > 0 {
		res.Fail = common.Failf("dir-vs-meta-after-close", "after Close, reopen, append, Close, reopen: files not named by the metadata %v, segments without a file %v", extra, missing)
		return
	}
	res.NonTrivial = closeInside
	return
}

func boundsOf(vs []*refmodel.LogModel) string {
	s := ""
	for _, v := range vs {
		s += fmt.Sprintf("[%d,%d] ", v.First, v.Last)
	}
	return s
}

func TestC14Close(t *testing.T) {
	common.Run(t, "C14", "C14Close", genC14, runC14)
}
