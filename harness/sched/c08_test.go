package sched

import (
	"fmt"
	"sync"
	"testing"
	"time"

	wal "github.com/hashicorp/raft-wal"
	"pgregory.net/rapid"

	"verifharness/common"
	"verifharness/kit"
	"verifharness/simfs"
)

// C08, concurrent stable writes: each SetUint64/Set on its own key must store
// its own value whatever the interleaving with other setters.
type SetRaceCase struct {
	Vals    []uint64 `json:"vals"` // one SetUint64 worker per value, key = "u<i>"
	Sets    int      `json:"sets"` // additional Set workers
	Choices []int    `json:"choices"`
	Free    bool     `json:"free,omitempty"`
}

func genSetRace(free bool) func(t *rapid.T) SetRaceCase {
	return func(t *rapid.T) SetRaceCase {
		c := SetRaceCase{Free: free}
		n := rapid.IntRange(2, 4).Draw(t, "n")
		if free {
			n = rapid.IntRange(4, 16).Draw(t, "n")
		}
		for i := 0; i < n; i++ {
			c.Vals = append(c.Vals, rapid.SampledFrom([]uint64{0x1111111111111111, 0x2222222222222222, 1, ^uint64(0), 0x0102030405060708}).Draw(t, "v")+uint64(i))
		}
		c.Sets = rapid.IntRange(0, 2).Draw(t, "sets")
		for i := 0; i < rapid.IntRange(0, 30).Draw(t, "nch"); i++ {
			c.Choices = append(c.Choices, rapid.IntRange(0, 7).Draw(t, "ch"))
		}
		return c
	}
}

func runSetRace(c SetRaceCase) (res common.Result) {
	hookMu.Lock()
	defer hookMu.Unlock()
	fs := simfs.New()
	w, err := kit.Cfg{SegSize: 4096, FS: fs}.Open()
	if err != nil {
		res.Fail = common.Failf("open-fresh", "%v", err)
		return
	}
	defer w.Close()
	errs := make([]error, len(c.Vals)+c.Sets)
	work := func(i int) func() {
		return func() {
			if i < len(c.Vals) {
				errs[i] = w.SetUint64([]byte(fmt.Sprintf("u%d", i)), c.Vals[i])
			} else {
				errs[i] = w.Set([]byte(fmt.Sprintf("s%d", i)), []byte(fmt.Sprintf("value-%d", i)))
			}
		}
	}
	if c.Free {
		var wg sync.WaitGroup
		for i := range errs {
			wg.Add(1)
			go func(i int) { defer wg.Done(); work(i)() }(i)
		}
		wg.Wait()
	} else {
		ctl := New()
		ctl.BlockWait = time.Millisecond
		ctl.Filter = func(worker, point string) bool {
			return point == "start" || point == "Set.afterClosedCheck" || point == "io:SetStable"
		}
		wal.SetVerifHook(ctl.Point)
		fs.SetHook(func(ev simfs.Event) (int, error) { ctl.Point("io:" + string(ev.Kind)); return -1, nil })
		defer func() { wal.SetVerifHook(nil); fs.SetHook(nil) }()
		for i := range errs {
			ctl.Go(fmt.Sprintf("w%d", i), work(i))
		}
		ctl.Run(c.Choices, nil)
		if stuck, dump := ctl.Finish(5 * time.Second); len(stuck) > 0 {
			res.Fail = common.Failf("deadlock", "setters %v are parked for good:\n%s", stuck, ctl.WorkerStacks(dump, stuck))
			return
		}
		wal.SetVerifHook(nil)
		fs.SetHook(nil)
		res.Note = fmt.Sprint(ctl.Trace)
	}
	for i, e := range errs {
		if e != nil {
			res.Fail = common.Failf("set-err", "setter %d = %v", i, e)
			return
		}
	}
	for i, v := range c.Vals {
		got, err := w.GetUint64([]byte(fmt.Sprintf("u%d", i)))
		if err != nil || got != v {
			res.Fail = common.Failf("concurrent-set-mixed", "SetUint64(u%d, %#x) returned nil but GetUint64 = %#x (err %v) after %d concurrent setters", i, v, got, err, len(errs))
			return
		}
	}
	for i := len(c.Vals); i < len(errs); i++ {
		got, err := w.Get([]byte(fmt.Sprintf("s%d", i)))
		if err != nil || string(got) != fmt.Sprintf("value-%d", i) {
			res.Fail = common.Failf("concurrent-set-mixed", "Set(s%d) returned nil but Get = %q (err %v)", i, got, err)
			return
		}
	}
	res.NonTrivial = true
	res.Classes = []string{"concurrent-setters"}
	return
}

func TestC08SetRace(t *testing.T) {
	common.Run(t, "C08", "C08SetRace", genSetRace(false), runSetRace)
}

// TestC08SetRaceFree is run from the -race build.
func TestC08SetRaceFree(t *testing.T) {
	common.Run(t, "C08", "C08SetRaceFree", genSetRace(true), runSetRace)
}
