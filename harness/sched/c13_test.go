package sched

import (
	"errors"
	"fmt"
	"strings"
	"testing"
	"time"

	"github.com/hashicorp/raft"
	wal "github.com/hashicorp/raft-wal"
	"pgregory.net/rapid"

	"verifharness/common"
	"verifharness/kit"
	"verifharness/refmodel"
	"verifharness/simfs"
)

// C13 reclamation part: files of segments wholly inside a deleted range are
// gone once DeleteRange has returned and in-flight reads have finished; a
// reader pinning the old state must not block the truncation.
type C13Case struct {
	SegSize int    `json:"seg"`
	N       int    `json:"n"`       // entries (one per batch, ~2 per segment)
	Readers []int  `json:"readers"` // index offsets (from first) each reader gets, parked inside ReadAt
	Kind    string `json:"kind"`    // head, tail, all
	Cut     int    `json:"cut"`
	Start   uint64 `json:"start"` // index of the first entry (a start other than the empty tail's base re-bases it)
	Again   bool   `json:"again"` // after the truncation append once more and truncate everything
	// Loaders: readers parked between loading the current state and taking their reference on it
	// (hook acquireState.loaded), i.e. the truncation publishes its new state under their feet
	Loaders []int `json:"loaders,omitempty"`
	// HoldPub (with Loaders): the truncation is held right after it has published the new state -
	// it still owns its reference on the old one - while the loaders go on: they take their
	// reference on the replaced state, notice, and must let go of it again
	HoldPub bool `json:"holdPub,omitempty"`
}

func dirVsMeta(fs *simfs.FS) (extra, missing []string) { return kit.DirVsMeta(fs) }

func runC13(c C13Case) common.Result { return runC13x(c, false) }

// runC13x: with strictReads a read racing the truncation must return the entry (as it was) or
// ErrLogNotFound - the C06 verdict; without it only reads of entries that stay are judged (C13).
func runC13x(c C13Case, strictReads bool) (res common.Result) {
	hookMu.Lock()
	defer hookMu.Unlock()
	fs := simfs.New()
	cfg := kit.Cfg{SegSize: c.SegSize, FS: fs}
	w, err := cfg.Open()
	if err != nil {
		res.Fail = common.Failf("open-fresh", "%v", err)
		return
	}
	defer w.Close()
	m := refmodel.NewLogModel()
	for i := 0; i < c.N; i++ {
		st := c.Start
		if st == 0 {
			st = 1
		}
		l := kit.EntrySpec{DataLen: c.SegSize / 3, Seed: uint8(i)}.Make(st+uint64(i), 0)
		if err := w.StoreLogs([]*raft.Log{l}); err != nil {
			res.Fail = common.Failf("harness", "%v", err)
			return
		}
		m.Append([]*raft.Log{l})
		kit.Barrier(w)
	}
	before := fs.Names()
	ctl := New()
	ctl.BlockWait = time.Millisecond
	// readers park only at their ReadAt; the truncating goroutine never parks
	ctl.Filter = func(worker, point string) bool {
		return (strings.HasPrefix(worker, "r") && point == "io:ReadAt") || (strings.HasPrefix(worker, "l") && point == "acquireState.loaded") ||
			(worker == "t" && point == "mutate.published")
	}
	fs.SetHook(func(ev simfs.Event) (int, error) {
		ctl.Point("io:" + string(ev.Kind))
		return -1, nil
	})
	wal.SetVerifHook(nil)
	if len(c.Loaders) > 0 {
		wal.SetVerifHook(func(name string) { ctl.Point(name) })
		defer wal.SetVerifHook(nil)
	}
	defer fs.SetHook(nil)

	type rres struct {
		idx uint64
		err error
		log raft.Log
	}
	rr := make([]*rres, len(c.Readers), len(c.Readers)+len(c.Loaders))
	for i, off := range c.Readers {
		r := &rres{idx: m.First + uint64(off)%m.Len()}
		rr[i] = r
		ctl.Go(fmt.Sprintf("r%d", i), func() { r.err = w.GetLog(r.idx, &r.log) })
	}
	for i, off := range c.Loaders {
		r := &rres{idx: m.First + uint64(off)%m.Len()}
		rr = append(rr, r)
		ctl.Go(fmt.Sprintf("l%d", i), func() { r.err = w.GetLog(r.idx, &r.log) })
	}
	// release every reader from "start" so that each parks inside its ReadAt
	// (start is not filtered for readers? it is: Filter only parks io:ReadAt) -> they run straight to ReadAt
	ctl.settle()
	pinned := len(ctl.parkedNames())
	var min, max uint64
	switch c.Kind {
	case "head":
		min, max = m.First, m.First+uint64(c.Cut)%m.Len()
	case "tail":
		min, max = m.Last-uint64(c.Cut)%m.Len(), m.Last
	default:
		min, max = m.First, m.Last
	}
	var derr error
	doneCh := make(chan struct{})
	if c.HoldPub && len(c.Loaders) > 0 {
		ctl.Go("t", func() { derr = w.DeleteRange(min, max); close(doneCh) })
		// explicit hand-shakes, no timing: wait until the truncation sits at mutate.published (or has
		// returned: a no-op publishes nothing), then run every loader to completion - each time it
		// parks again at acquireState.loaded it is released again -, then let the truncation finish
		ctl.AwaitParkedOrDone("t")
		for i := range c.Loaders {
			name := fmt.Sprintf("l%d", i)
			for ctl.Running(name) {
				ctl.AwaitParkedOrDone(name)
				ctl.Release(name)
			}
		}
		for ctl.Running("t") {
			ctl.AwaitParkedOrDone("t")
			ctl.Release("t")
		}
		res.Classes = append(res.Classes, "reader-acquires-between-publish-and-writer-release")
	} else {
		go func() { derr = w.DeleteRange(min, max); close(doneCh) }()
	}
	if parked, st := common.WaitParked(doneCh, "raft-wal.(*WAL).DeleteRange", 2*time.Second, 5*time.Minute); parked {
		ctl.Finish(time.Second)
		res.Fail = common.Failf("truncation-blocked-by-reader", "DeleteRange(%d,%d) is parked while %d readers sit inside ReadAt; it must not wait for readers:\n%s", min, max, pinned, st)
		return
	}
	if derr != nil {
		res.Fail = common.Failf("delete-err", "DeleteRange(%d,%d) = %v", min, max, derr)
		ctl.Finish(time.Second)
		return
	}
	v0 := m.Clone()
	m.Delete(min, max)
	// while readers are pinned the files may remain; release them
	stuck, dump := ctl.Finish(5 * time.Second)
	if len(stuck) > 0 {
		res.Fail = common.Failf("deadlock", "readers %v are parked for good:\n%s", stuck, ctl.WorkerStacks(dump, stuck))
		return
	}
	for _, r := range rr {
		want, had := v0.Get(r.idx)
		_, has := m.Get(r.idx)
		switch {
		case r.err == nil:
			if !had || refmodel.Diff(want, &r.log) != "" {
				res.Fail = common.Failf("wrong-entry", "pinned reader GetLog(%d) returned a wrong entry", r.idx)
				return
			}
		case errors.Is(r.err, raft.ErrLogNotFound):
			if has {
				res.Fail = common.Failf("missing-entry", "pinned reader GetLog(%d) = not found but the entry was never removed", r.idx)
				return
			}
		default:
			if has {
				res.Fail = common.Failf("read-error", "pinned reader GetLog(%d) = %v for an entry that stayed in the log", r.idx, r.err)
				return
			}
			if strictReads {
				res.Fail = common.Failf("read-error-racing-truncation", "GetLog(%d) racing DeleteRange(%d,%d) returned %q: neither the entry (the read began before the truncation) nor ErrLogNotFound", r.idx, min, max, r.err)
				return
			}
		}
	}
	// now nothing pins the old state: deleted segments' files are gone, nothing else is
	kit.Barrier(w)
	extra, missing := dirVsMeta(fs)
	if len(extra) > 0 {
		res.Fail = common.Failf("files-not-reclaimed", "after DeleteRange(%d,%d) returned and all %d pinned reads finished, files not listed in metadata remain: %v (before: %v; schedule %v)", min, max, pinned, extra, before, ctl.Trace)
		return
	}
	if len(missing) > 0 {
		res.Fail = common.Failf("missing-files", "files of live segments are missing: %v", missing)
		return
	}
	st, _ := fs.MetaState()
	for _, si := range st.Segments {
		if si.MaxIndex != 0 && !m.Empty() && si.MaxIndex < m.First {
			res.Fail = common.Failf("dead-segment-listed", "segment %d [%d,%d] lies wholly below FirstIndex %d but is still listed", si.ID, si.MinIndex, si.MaxIndex, m.First)
			return
		}
	}
	if n := fs.OpenHandles(); n != len(st.Segments) {
		res.Fail = common.Failf("handles-leak", "%d file handles open for %d live segments after the truncation and all reads finished", n, len(st.Segments))
		return
	}
	if sig, msg := kit.CheckAgainst(w, m, nil); sig != "" {
		res.Fail = common.Failf("model/"+sig, "%s", msg)
		return
	}
	if c.Again {
		// append again (re-basing an emptied log) and remove everything: nothing but the new tail may remain
		nxt := m.Last + 1
		if m.Empty() {
			nxt = max + 5
		}
		l := kit.EntrySpec{DataLen: 10, Seed: 77}.Make(nxt, 1)
		if err := w.StoreLogs([]*raft.Log{l}); err != nil {
			res.Fail = common.Failf("append-err", "StoreLogs(%d) after the truncation = %v", nxt, err)
			return
		}
		m.Append([]*raft.Log{l})
		kit.Barrier(w)
		if err := w.DeleteRange(m.First, m.Last); err != nil {
			res.Fail = common.Failf("delete-err", "DeleteRange(everything) = %v", err)
			return
		}
		m.Delete(m.First, m.Last)
		kit.Barrier(w)
		extra, missing = dirVsMeta(fs)
		if len(extra) > 0 || len(missing) > 0 {
			res.Fail = common.Failf("files-not-reclaimed", "after re-append and DeleteRange of everything: files not in metadata %v, missing %v", extra, missing)
			return
		}
		st2, _ := fs.MetaState()
		if n := fs.OpenHandles(); n != len(st2.Segments) {
			res.Fail = common.Failf("handles-leak", "%d file handles open for %d live segments after deleting everything", n, len(st2.Segments))
			return
		}
		res.Classes = append(res.Classes, "reappend-then-delete-all")
	}
	res.NonTrivial = (pinned > 0 && len(before) != len(fs.Names())) || c.Again
	if pinned > 0 {
		res.Classes = append(res.Classes, "truncation-with-pinned-reader")
	}
	if len(c.Loaders) > 0 {
		res.Classes = append(res.Classes, "truncation-under-reader-between-load-and-acquire")
	}
	if len(before) > len(fs.Names()) {
		res.Classes = append(res.Classes, "files-deleted")
	}
	res.Classes = append(res.Classes, "trunc:"+c.Kind)
	return
}

func TestC13Pinned(t *testing.T) {
	common.Run(t, "C13", "C13Pinned", func(t *rapid.T) C13Case {
		c := C13Case{SegSize: rapid.SampledFrom([]int{128, 256, 512}).Draw(t, "seg"), N: rapid.IntRange(3, 14).Draw(t, "n")}
		for i := 0; i < rapid.IntRange(0, 4).Draw(t, "nr"); i++ {
			c.Readers = append(c.Readers, rapid.IntRange(0, 13).Draw(t, "off"))
		}
		c.Kind = rapid.SampledFrom([]string{"head", "head", "tail", "all"}).Draw(t, "kind")
		c.Cut = rapid.IntRange(0, 13).Draw(t, "cut")
		c.Start = rapid.SampledFrom([]uint64{1, 1, 2, 100, 1 << 33}).Draw(t, "start")
		c.Again = rapid.Bool().Draw(t, "again")
		for i := 0; i < rapid.IntRange(0, 2).Draw(t, "nl"); i++ {
			c.Loaders = append(c.Loaders, rapid.IntRange(0, 13).Draw(t, "loff"))
		}
		c.HoldPub = len(c.Loaders) > 0 && rapid.Bool().Draw(t, "holdPub")
		if rapid.IntRange(0, 3).Draw(t, "short") == 0 {
			c.N = rapid.IntRange(1, 3).Draw(t, "shortN") // stays in the first segment: no rotation before the truncation
		}
		return c
	}, runC13)
}

// TestC06LoadedReader: C06's verdict over the same executions - a GetLog that was between loading
// the state and taking its reference when a truncation published (and finalised) under it returns
// the entry or ErrLogNotFound, never an I/O error from a file the truncation closed or deleted.
func TestC06LoadedReader(t *testing.T) {
	common.Run(t, "C06", "C06LoadedReader", func(t *rapid.T) C13Case {
		c := C13Case{SegSize: rapid.SampledFrom([]int{128, 256, 512}).Draw(t, "seg"), N: rapid.IntRange(3, 14).Draw(t, "n")}
		for i := 0; i < rapid.IntRange(0, 2).Draw(t, "nr"); i++ {
			c.Readers = append(c.Readers, rapid.IntRange(0, 13).Draw(t, "off"))
		}
		for i := 0; i < rapid.IntRange(1, 3).Draw(t, "nl"); i++ {
			c.Loaders = append(c.Loaders, rapid.IntRange(0, 13).Draw(t, "loff"))
		}
		c.Kind = rapid.SampledFrom([]string{"head", "head", "tail", "all"}).Draw(t, "kind")
		c.Cut = rapid.IntRange(0, 13).Draw(t, "cut")
		c.Start = rapid.SampledFrom([]uint64{1, 1, 100}).Draw(t, "start")
		c.HoldPub = rapid.IntRange(0, 2).Draw(t, "holdPub") == 0
		return c
	}, func(c C13Case) common.Result { return runC13x(c, true) })
}
