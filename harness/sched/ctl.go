// Package sched is the harness-owned scheduler (E4): worker goroutines park at
// named points (verifPoint hooks compiled into raft-wal with -tags verif, and
// SimFS I/O events) and a controller decides, from a generated list of
// choices, which parked goroutine runs next.
package sched

import (
	"bytes"
	"fmt"
	"regexp"
	"runtime"
	"sort"
	"strconv"
	"strings"
	"sync"
	"time"

	"verifharness/common"
)

func gid() uint64 {
	var buf [64]byte
	b := buf[:runtime.Stack(buf[:], false)]
	b = bytes.TrimPrefix(b, []byte("goroutine "))
	i := bytes.IndexByte(b, ' ')
	n, _ := strconv.ParseUint(string(b[:i]), 10, 64)
	return n
}

type event struct {
	worker string
	point  string
	done   bool
}

type parked struct {
	point string
	ch    chan struct{}
}

// Ctl controls one schedule.
type Ctl struct {
	mu      sync.Mutex
	byGid   map[uint64]string
	parked  map[string]*parked
	events  chan event
	free    bool
	running map[string]bool // workers started and not finished
	Trace   []string        // "worker@point" in the order goroutines were released
	// Filter decides whether a point parks (nil = all).
	Filter func(worker, point string) bool
	// BlockWait is how long the controller waits for a released goroutine to
	// reach its next point before treating it as blocked on a lock.
	BlockWait time.Duration
	bgSeq     int
}

func New() *Ctl {
	return &Ctl{byGid: map[uint64]string{}, parked: map[string]*parked{}, events: make(chan event, 1024), running: map[string]bool{}, BlockWait: 3 * time.Millisecond}
}

// Point is called from hooks on the goroutine that reached the point.
func (c *Ctl) Point(name string) {
	c.mu.Lock()
	if c.free {
		c.mu.Unlock()
		return
	}
	g := gid()
	w, ok := c.byGid[g]
	if !ok {
		// a goroutine we did not start (the WAL's rotation goroutine)
		if !strings.HasPrefix(name, "runRotate") && !strings.HasPrefix(name, "io:") && !strings.HasPrefix(name, "mutate") {
			c.mu.Unlock()
			return
		}
		c.bgSeq++
		w = fmt.Sprintf("bg%d", c.bgSeq)
		c.byGid[g] = w
	}
	if c.Filter != nil && !c.Filter(w, name) {
		c.mu.Unlock()
		return
	}
	p := &parked{point: name, ch: make(chan struct{})}
	c.parked[w] = p
	c.mu.Unlock()
	c.events <- event{worker: w, point: name}
	<-p.ch
}

// Go starts a worker; it parks at point "start" before running fn.
func (c *Ctl) Go(name string, fn func()) {
	c.mu.Lock()
	c.running[name] = true
	c.mu.Unlock()
	ready := make(chan struct{})
	go func() {
		c.mu.Lock()
		c.byGid[gid()] = name
		c.mu.Unlock()
		close(ready)
		c.Point("start")
		fn()
		c.mu.Lock()
		delete(c.running, name)
		free := c.free
		c.mu.Unlock()
		if !free {
			c.events <- event{worker: name, done: true}
		} else {
			select {
			case c.events <- event{worker: name, done: true}:
			default:
			}
		}
	}()
	<-ready
}

// waitEvent waits for the next arrival/completion, or the block timeout.
func (c *Ctl) waitEvent(d time.Duration) bool {
	select {
	case <-c.events:
		return true
	case <-time.After(d):
		return false
	}
}

func (c *Ctl) parkedNames() []string {
	c.mu.Lock()
	defer c.mu.Unlock()
	names := make([]string, 0, len(c.parked))
	for n := range c.parked {
		names = append(names, n)
	}
	sort.Strings(names)
	return names
}

// Release lets the named worker go if it is parked (recorded in Trace); false if it is not parked.
func (c *Ctl) Release(name string) bool {
	c.mu.Lock()
	p, ok := c.parked[name]
	if ok {
		delete(c.parked, name)
		c.Trace = append(c.Trace, name+"@"+p.point)
	}
	c.mu.Unlock()
	if ok {
		close(p.ch)
	}
	return ok
}

// ParkedAt returns the point the named worker is parked at ("" if it is not parked).
func (c *Ctl) ParkedAt(name string) string {
	c.mu.Lock()
	defer c.mu.Unlock()
	if p, ok := c.parked[name]; ok {
		return p.point
	}
	return ""
}

// Running reports whether the named worker was started and has not finished.
func (c *Ctl) Running(name string) bool {
	c.mu.Lock()
	defer c.mu.Unlock()
	return c.running[name]
}

// AwaitParkedOrDone waits (no verdict attached: a generous cap makes the case inconclusive) until
// the named worker is parked at a point or has finished.
func (c *Ctl) AwaitParkedOrDone(name string) {
	start := time.Now()
	for c.ParkedAt(name) == "" && c.Running(name) {
		// drain arrival/completion events so the channel never fills up
		select {
		case <-c.events:
		case <-time.After(50 * time.Microsecond):
		}
		if time.Since(start) > 3*time.Minute {
			common.Inconclusive("worker %s neither parked nor finished after %v", name, time.Since(start))
		}
	}
}

// settle waits until no further events arrive for one BlockWait (every
// running goroutine is parked, finished or blocked).
func (c *Ctl) settle() {
	for c.waitEvent(c.BlockWait) {
	}
}

// Run drives the schedule: each choice releases one parked goroutine. prefer,
// if non-nil, may override the choice given the parked set (used for biased schedules).
func (c *Ctl) Run(choices []int, prefer func(step int, parked map[string]string) string) {
	c.settle()
	for step, ch := range choices {
		names := c.parkedNames()
		if len(names) == 0 {
			c.mu.Lock()
			n := len(c.running)
			c.mu.Unlock()
			if n == 0 {
				break
			}
			// running goroutines are blocked or still working; give them a moment
			if !c.waitEvent(20 * c.BlockWait) {
				break
			}
			c.settle()
			continue
		}
		pick := names[ch%len(names)]
		if prefer != nil {
			c.mu.Lock()
			pm := map[string]string{}
			for n, p := range c.parked {
				pm[n] = p.point
			}
			c.mu.Unlock()
			if p := prefer(step, pm); p != "" {
				if _, ok := pm[p]; ok {
					pick = p
				}
			}
		}
		c.mu.Lock()
		p := c.parked[pick]
		delete(c.parked, pick)
		c.Trace = append(c.Trace, pick+"@"+p.point)
		c.mu.Unlock()
		close(p.ch)
		// let it run to its next point / completion / a lock
		c.waitEvent(c.BlockWait)
		c.settle()
	}
}

// Finish switches to pass-through mode, releases everyone and waits for all
// workers. It returns the workers that are provably blocked, with a dump of
// all goroutine stacks: a worker counts as blocked only if, in two dumps taken
// d apart, its goroutine is parked (chan receive/send, select, semacquire,
// sync.Cond.Wait, sync.Mutex.Lock) - a runnable or running goroutine on a busy
// machine is merely slow and is waited for. If workers are still unfinished
// but not provably blocked after a generous cap the case is inconclusive
// (reported through the inconclusive callback), never a verdict.
func (c *Ctl) Finish(d time.Duration) ([]string, string) {
	c.mu.Lock()
	c.free = true
	for n, p := range c.parked {
		close(p.ch)
		delete(c.parked, n)
	}
	c.mu.Unlock()
	start := time.Now()
	next := start.Add(d)
	var prevBlocked map[string]string
	for {
		c.mu.Lock()
		n := len(c.running)
		c.mu.Unlock()
		if n == 0 {
			return nil, ""
		}
		if time.Now().Before(next) {
			time.Sleep(200 * time.Microsecond)
			continue
		}
		next = time.Now().Add(d)
		buf := make([]byte, 4<<20)
		dump := string(buf[:runtime.Stack(buf, true)])
		blocked := c.blockedWorkers(dump)
		c.mu.Lock()
		allBlocked := len(blocked) == len(c.running) && len(blocked) > 0
		c.mu.Unlock()
		if allBlocked && prevBlocked != nil {
			same := true
			for w, st := range blocked {
				if prevBlocked[w] != st {
					same = false
				}
			}
			if same {
				var stuck []string
				for w := range blocked {
					stuck = append(stuck, w)
				}
				sort.Strings(stuck)
				return stuck, dump
			}
		}
		if allBlocked {
			prevBlocked = blocked
		} else {
			prevBlocked = nil
		}
		if time.Since(start) > 40*d+2*time.Minute {
			common.Inconclusive("workers still unfinished after %v but not provably blocked (machine too busy?)", time.Since(start))
		}
	}
}

// WorkerStacks returns, from a full dump, the stacks of the named workers' own goroutines.
func (c *Ctl) WorkerStacks(dump string, workers []string) string {
	want := map[string]bool{}
	for _, w := range workers {
		want[w] = true
	}
	c.mu.Lock()
	gids := map[uint64]string{}
	for g, w := range c.byGid {
		if want[w] {
			gids[g] = w
		}
	}
	c.mu.Unlock()
	var out []string
	for _, g := range strings.Split(dump, "\n\n") {
		m := reGoroutine.FindStringSubmatch(g)
		if m == nil {
			continue
		}
		id, _ := strconv.ParseUint(m[1], 10, 64)
		if w, ok := gids[id]; ok {
			if len(g) > 2000 {
				g = g[:2000]
			}
			out = append(out, "worker "+w+": "+g)
		}
	}
	return strings.Join(out, "\n\n")
}

var reGoroutine = regexp.MustCompile(`^goroutine (\d+) \[([^\],]+)`)

// blockedWorkers maps each still-running worker whose goroutine is parked to
// "state@top-frame".
func (c *Ctl) blockedWorkers(dump string) map[string]string {
	c.mu.Lock()
	gids := map[uint64]string{}
	for g, w := range c.byGid {
		if c.running[w] {
			gids[g] = w
		}
	}
	c.mu.Unlock()
	out := map[string]string{}
	for _, g := range strings.Split(dump, "\n\n") {
		m := reGoroutine.FindStringSubmatch(g)
		if m == nil {
			continue
		}
		id, _ := strconv.ParseUint(m[1], 10, 64)
		w, ok := gids[id]
		if !ok {
			continue
		}
		switch m[2] {
		case "chan receive", "chan send", "select", "semacquire", "sync.Cond.Wait", "sync.Mutex.Lock", "sync.RWMutex.Lock", "sync.RWMutex.RLock", "chan receive (nil chan)", "chan send (nil chan)", "select (no cases)":
			lines := strings.SplitN(g, "\n", 4)
			top := ""
			if len(lines) > 1 {
				top = lines[1]
			}
			out[w] = m[2] + "@" + top
		}
	}
	return out
}

// StackOf extracts from a full dump the goroutines that mention needle.
func StackOf(dump, needle string) string {
	var out []string
	for _, g := range strings.Split(dump, "\n\n") {
		if strings.Contains(g, needle) {
			if len(g) > 1800 {
				g = g[:1800]
			}
			out = append(out, g)
		}
	}
	return strings.Join(out, "\n\n")
}

func (c *Ctl) String() string { return fmt.Sprint(c.Trace) }
