// Package wl is a small serialisable workload language executed against a WAL
// on the production stack (used by the traced harness binary, C07/C08).
package wl

import (
	"fmt"
	"os"
	"path/filepath"

	"github.com/hashicorp/raft"
	wal "github.com/hashicorp/raft-wal"
	"github.com/hashicorp/raft-wal/fs"
	"github.com/hashicorp/raft-wal/segment"
	"github.com/hashicorp/raft-wal/types"

	"verifharness/kit"
	"verifharness/refmodel"
)

type Op struct {
	K     string `json:"k"` // append, delhead, deltail, delall, set, setu64, get, reopen
	Sizes []int  `json:"sizes,omitempty"`
	Start uint64 `json:"start,omitempty"`
	A     int    `json:"a,omitempty"`
	Key   string `json:"key,omitempty"`
	Val   []byte `json:"val,omitempty"`
}

type Workload struct {
	SegSize int  `json:"seg"`
	Ops     []Op `json:"ops"`
	// Retry: a StoreLogs that returns an error is retried once with the same entries (as raft would).
	Retry bool `json:"retry,omitempty"`
	// RetryReopen: before the retry the WAL is closed and opened again (process restart).
	RetryReopen bool `json:"retryReopen,omitempty"`
	// Filer: when set, the workload drives segment.Filer over the production fs directly
	// (Create + one committed batch, Delete, repeated Delete) instead of a WAL.
	Filer []FilerOp `json:"filer,omitempty"`
}

// FilerOp is one call on the production segment filer.
type FilerOp struct {
	K    string `json:"k"` // create, delete
	ID   uint64 `json:"id"`
	Base uint64 `json:"base"`
	N    int    `json:"n,omitempty"` // entries committed right after creation
}

// RunFiler executes the filer ops in dir; a call that returns an error is marked "err" and the
// workload goes on (a later op may retry it).
func (r *Runner) RunFiler(w Workload, dir string) error {
	sf := segment.NewFiler(dir, fs.New())
	for i, op := range w.Filer {
		step := i + 1
		info := types.SegmentInfo{ID: op.ID, BaseIndex: op.Base, MinIndex: op.Base, SizeLimit: uint32(w.SegSize), Codec: 1}
		name := segment.FileName(info)
		switch op.K {
		case "create":
			_ = r.call(step, "FilerCreate:"+name, func() error {
				sw, err := sf.Create(info)
				if err != nil {
					return err
				}
				defer sw.Close()
				var es []types.LogEntry
				for j := 0; j < op.N; j++ {
					es = append(es, types.LogEntry{Index: op.Base + uint64(j), Data: kit.Fill(24, uint8(step), op.Base+uint64(j), 3)})
				}
				if len(es) == 0 {
					return nil
				}
				return sw.Append(es)
			})
		case "delete":
			_ = r.call(step, "FilerDelete:"+name, func() error { return sf.Delete(op.Base, op.ID) })
		}
	}
	return nil
}

// Runner executes a workload step by step; Mark is called around every API call.
type Runner struct {
	Cfg    kit.Cfg
	W      *wal.WAL
	M      *refmodel.LogModel
	Stable map[string][]byte
	Mark   func(step int, op, phase string)
	gen    uint8
}

func (r *Runner) mark(i int, op, ph string) {
	if r.Mark != nil {
		r.Mark(i, op, ph)
	}
}

func (r *Runner) call(i int, name string, fn func() error) error {
	r.mark(i, name, "begin")
	err := fn()
	if err != nil {
		r.mark(i, name, "err")
	} else {
		r.mark(i, name, "ok")
	}
	return err
}

func (r *Runner) Open(i int) error {
	return r.call(i, "Open", func() error {
		w, err := r.Cfg.Open()
		if err == nil {
			r.W = w
		}
		return err
	})
}

func (r *Runner) Run(wl Workload) error {
	if r.M == nil {
		r.M = refmodel.NewLogModel()
	}
	if r.Stable == nil {
		r.Stable = map[string][]byte{}
	}
	if err := r.Open(0); err != nil {
		return fmt.Errorf("open: %w", err)
	}
	for i, op := range wl.Ops {
		step := i + 1
		switch op.K {
		case "append":
			start := r.M.Last + 1
			if r.M.Empty() {
				start = op.Start
				if start == 0 {
					start = 1
				}
			}
			var logs []*raft.Log
			for j, sz := range op.Sizes {
				logs = append(logs, kit.EntrySpec{DataLen: sz, Seed: uint8(step + j)}.Make(start+uint64(j), r.gen))
			}
			if err := r.call(step, "StoreLogs", func() error { return r.W.StoreLogs(logs) }); err != nil {
				if !wl.Retry {
					return fmt.Errorf("step %d StoreLogs: %w", step, err)
				}
				if wl.RetryReopen {
					_ = r.call(step, "Close", func() error { return r.W.Close() })
					if err := r.Open(step); err != nil {
						return fmt.Errorf("step %d Open before retry: %w", step, err)
					}
				}
				// after a restart the failed batch may have been recovered (its bytes were written, only
				// the fsync failed): then there is nothing to retry and the next append goes on from there
				recovered := false
				if wl.RetryReopen {
					if last, lerr := r.W.LastIndex(); lerr == nil && last == logs[len(logs)-1].Index {
						recovered = true
					}
				}
				if !recovered {
					if err2 := r.call(step, "StoreLogs", func() error { return r.W.StoreLogs(logs) }); err2 != nil {
						return fmt.Errorf("step %d StoreLogs failed (%v) and its retry too: %w", step, err, err2)
					}
				}
			}
			r.M.Append(logs)
			// wait for the background rotation inside its own marked call
			_ = r.call(step, "Barrier", func() error { kit.Barrier(r.W); return nil })
		case "delhead", "deltail", "delall":
			if r.M.Empty() {
				continue
			}
			var min, max uint64
			switch op.K {
			case "delhead":
				min, max = r.M.First, r.M.First+uint64(op.A)
			case "deltail":
				min, max = r.M.Last-uint64(op.A)%r.M.Len(), r.M.Last
			default:
				min, max = r.M.First, r.M.Last
			}
			if err := r.call(step, "DeleteRange", func() error { return r.W.DeleteRange(min, max) }); err != nil {
				return fmt.Errorf("step %d DeleteRange: %w", step, err)
			}
			r.M.Delete(min, max)
			r.gen++
		case "set":
			if err := r.call(step, "Set", func() error { return r.W.Set([]byte(op.Key), op.Val) }); err != nil {
				return fmt.Errorf("step %d Set: %w", step, err)
			}
			r.Stable[op.Key] = op.Val
		case "setu64":
			if err := r.call(step, "Set", func() error { return r.W.SetUint64([]byte(op.Key), uint64(op.A)) }); err != nil {
				return fmt.Errorf("step %d SetUint64: %w", step, err)
			}
		case "get":
			var l raft.Log
			idx := r.M.First + uint64(op.A)
			_ = r.call(step, "GetLog", func() error { r.W.GetLog(idx, &l); return nil })
		case "reopen", "reopenlost":
			if err := r.call(step, "Close", func() error { return r.W.Close() }); err != nil {
				return fmt.Errorf("step %d Close: %w", step, err)
			}
			if op.K == "reopenlost" && r.Cfg.Dir != "" {
				// a power loss may take away a tail file that was created (and listed in the metadata)
				// but never committed to: its directory entry is only fsynced with the first commit.
				// The harness removes such a file under its own marker; Open must re-create it.
				_ = r.call(step, "HarnessLoseTail", func() error {
					names, _ := filepath.Glob(filepath.Join(r.Cfg.Dir, "*.wal"))
					for _, n := range names {
						f, err := os.Open(n)
						if err != nil {
							continue
						}
						var hdr [8]byte
						k, _ := f.Read(hdr[:])
						f.Close()
						if k == 8 && hdr == [8]byte{} {
							os.Remove(n)
						}
					}
					return nil
				})
			}
			if err := r.Open(step); err != nil {
				return fmt.Errorf("step %d Open: %w", step, err)
			}
		}
	}
	return r.call(len(wl.Ops)+1, "Close", func() error { return r.W.Close() })
}

// ModelAfter replays the workload on the reference model alone: the log after the first
// `acked` steps were acknowledged (steps are 1-based as in Run; Open is step 0), and, if step
// acked+1 exists and mutates the log, the log as it would be with that step applied as well
// (nil otherwise). Only for workloads without Retry/reopenlost.
func ModelAfter(w Workload, acked int) (m *refmodel.LogModel, withNext *refmodel.LogModel) {
	m = refmodel.NewLogModel()
	gen := uint8(0)
	apply := func(mm *refmodel.LogModel, step int, op Op, g *uint8) {
		switch op.K {
		case "append":
			start := mm.Last + 1
			if mm.Empty() {
				start = op.Start
				if start == 0 {
					start = 1
				}
			}
			var logs []*raft.Log
			for j, sz := range op.Sizes {
				logs = append(logs, kit.EntrySpec{DataLen: sz, Seed: uint8(step + j)}.Make(start+uint64(j), *g))
			}
			mm.Append(logs)
		case "delhead", "deltail", "delall":
			if mm.Empty() {
				return
			}
			var min, max uint64
			switch op.K {
			case "delhead":
				min, max = mm.First, mm.First+uint64(op.A)
			case "deltail":
				min, max = mm.Last-uint64(op.A)%mm.Len(), mm.Last
			default:
				min, max = mm.First, mm.Last
			}
			mm.Delete(min, max)
			*g++
		}
	}
	for i, op := range w.Ops {
		step := i + 1
		if step <= acked {
			apply(m, step, op, &gen)
			continue
		}
		if step == acked+1 {
			switch {
			case op.K == "append", (op.K == "delhead" || op.K == "deltail" || op.K == "delall") && !m.Empty():
				withNext = m.Clone()
				g2 := gen
				apply(withNext, step, op, &g2)
			}
		}
		break
	}
	return
}
