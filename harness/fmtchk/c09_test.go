// Package fmtchk checks the on-disk format against an independent
// encoder/decoder written from the README, and golden directories written by
// the pinned version (C09).
package fmtchk

import (
	"bytes"
	"encoding/json"
	"fmt"
	"os"
	"path/filepath"
	"sort"
	"testing"
	"time"

	"github.com/hashicorp/raft"
	wal "github.com/hashicorp/raft-wal"
	"github.com/hashicorp/raft-wal/types"
	"go.etcd.io/bbolt"
	"pgregory.net/rapid"

	"verifharness/common"
	"verifharness/kit"
	"verifharness/refmodel"
	"verifharness/simfs"
)

func TestMain(m *testing.M) { common.Main(m) }

type FOp struct {
	K       string          `json:"k"` // append, delhead, deltail, delall, reopen
	Entries []kit.EntrySpec `json:"e,omitempty"`
	Start   uint64          `json:"start,omitempty"`
	A       int             `json:"a,omitempty"`
}

type Case struct {
	SegSize int   `json:"seg"`
	Real    bool  `json:"real,omitempty"`
	Ops     []FOp `json:"ops"`
}

func genCase(real bool) func(t *rapid.T) Case {
	return func(t *rapid.T) Case {
		c := Case{Real: real, SegSize: rapid.SampledFrom([]int{64, 128, 256, 1024, 4096, 65536}).Draw(t, "seg")}
		n := rapid.IntRange(1, 16).Draw(t, "nops")
		for i := 0; i < n; i++ {
			k := rapid.IntRange(0, 99).Draw(t, "k")
			switch {
			case k < 65:
				op := FOp{K: "append", Start: rapid.SampledFrom([]uint64{1, 1, 2, 9, 1 << 35}).Draw(t, "start")}
				m := rapid.IntRange(1, 5).Draw(t, "n")
				for j := 0; j < m; j++ {
					e := kit.EntrySpec{Seed: uint8(rapid.IntRange(0, 255).Draw(t, "seed")), Term: uint64(rapid.IntRange(0, 200).Draw(t, "term")), Type: uint8(rapid.IntRange(0, 5).Draw(t, "ty"))}
					// all padding residues, small and large
					e.DataLen = rapid.SampledFrom([]int{0, 1, 2, 3, 4, 5, 6, 7, 8, 9, 15, 16, 17, 40, 100, 333, 1000}).Draw(t, "dl")
					if rapid.IntRange(0, 3).Draw(t, "ext") == 0 {
						e.ExtLen = rapid.IntRange(1, 9).Draw(t, "el")
					}
					if rapid.Bool().Draw(t, "tm") {
						e.Time = rapid.Int64Range(1, 4e18).Draw(t, "time")
					}
					op.Entries = append(op.Entries, e)
				}
				c.Ops = append(c.Ops, op)
			case k < 75:
				c.Ops = append(c.Ops, FOp{K: "delhead", A: rapid.IntRange(0, 6).Draw(t, "a")})
			case k < 87:
				c.Ops = append(c.Ops, FOp{K: "deltail", A: rapid.IntRange(0, 6).Draw(t, "a")})
			case k < 90:
				c.Ops = append(c.Ops, FOp{K: "delall"})
			default:
				c.Ops = append(c.Ops, FOp{K: "reopen"})
			}
		}
		return c
	}
}

// fileModel is what the harness expects a segment file to contain.
type fileModel struct {
	hdr    refmodel.Header
	groups []refmodel.Group
	sealed bool
}

type dirReader interface {
	names() []string
	read(name string) ([]byte, bool)
	meta() (types.PersistentState, error)
}

type simDir struct{ fs *simfs.FS }

func (d simDir) names() []string              { return d.fs.Names() }
func (d simDir) read(n string) ([]byte, bool) { return d.fs.ReadFile(n) }
func (d simDir) meta() (types.PersistentState, error) {
	st, _ := d.fs.MetaState()
	return st, nil
}

type realDir struct{ dir string }

func (d realDir) names() []string {
	ents, _ := os.ReadDir(d.dir)
	var out []string
	for _, e := range ents {
		if filepath.Ext(e.Name()) == ".wal" {
			out = append(out, e.Name())
		}
	}
	sort.Strings(out)
	return out
}
func (d realDir) read(n string) ([]byte, bool) {
	b, err := os.ReadFile(filepath.Join(d.dir, n))
	return b, err == nil
}

// meta reads the record with bbolt directly: bucket "wal-meta", key "m" (read-only, needs the WAL closed).
func (d realDir) meta() (types.PersistentState, error) {
	return readBoltMeta(filepath.Join(d.dir, "wal-meta.db"))
}

func readBoltMeta(path string) (types.PersistentState, error) {
	var st types.PersistentState
	db, err := bbolt.Open(path, 0o600, &bbolt.Options{ReadOnly: true, Timeout: 2 * time.Second})
	if err != nil {
		return st, err
	}
	defer db.Close()
	err = db.View(func(tx *bbolt.Tx) error {
		b := tx.Bucket([]byte("wal-meta"))
		if b == nil {
			return fmt.Errorf("bucket wal-meta missing")
		}
		raw := b.Get([]byte("m"))
		if raw == nil {
			return fmt.Errorf("key m missing in bucket wal-meta")
		}
		// field names are part of the format
		var probe map[string]json.RawMessage
		if err := json.Unmarshal(raw, &probe); err != nil {
			return err
		}
		for _, k := range []string{"NextSegmentID", "Segments"} {
			if _, ok := probe[k]; !ok {
				return fmt.Errorf("metadata record lacks field %q: %s", k, raw)
			}
		}
		return json.Unmarshal(raw, &st)
	})
	return st, err
}

// checkFiles compares every live segment file with its model.
func checkFiles(d dirReader, st types.PersistentState, files map[uint64]*fileModel, m *refmodel.LogModel, where string) (*common.Failure, int) {
	seals := 0
	want := map[string]bool{}
	for i, si := range st.Segments {
		name := refmodel.FileName(si.BaseIndex, si.ID)
		want[name] = true
		fm := files[si.ID]
		if fm == nil {
			return common.Failf("harness-untracked-file", "%s: segment id %d not tracked", where, si.ID), 0
		}
		b, ok := d.read(name)
		if !ok {
			return common.Failf("file-missing", "%s: metadata lists %s but the file does not exist under the documented name", where, name), 0
		}
		if len(fm.groups) == 0 {
			// nothing committed yet: header may be absent; the file must be all zeros
			for j, x := range b {
				if x != 0 {
					return common.Failf("uncommitted-bytes", "%s: %s has no committed batch but byte %d is %#x", where, name, j, x), 0
				}
			}
			continue
		}
		h, groups, committed, err := refmodel.DecodeSegment(b)
		if err != nil {
			return common.Failf("decode", "%s: %s does not parse per the README: %v", where, name, err), 0
		}
		if h != fm.hdr || h.BaseIndex != si.BaseIndex || h.ID != si.ID || h.Codec != si.Codec {
			return common.Failf("header", "%s: %s header %+v, metadata {Base:%d ID:%d Codec:%d}", where, name, h, si.BaseIndex, si.ID, si.Codec), 0
		}
		if len(groups) != len(fm.groups) {
			return common.Failf("commit-count", "%s: %s has %d commit frames, %d batches were acknowledged into it", where, name, len(groups), len(fm.groups)), 0
		}
		exp := refmodel.EncodeSegment(fm.hdr, fm.groups)
		if !bytes.Equal(exp, b[:committed]) {
			o := 0
			for o < len(exp) && o < committed && exp[o] == b[o] {
				o++
			}
			return common.Failf("bytes-differ", "%s: %s differs from the README encoding of its batches at offset %d (file %x..., expected %x...)", where, name, o, clip(b[o:committed]), clip(exp[o:])), 0
		}
		sealedMeta := !si.SealTime.IsZero()
		if sealedMeta {
			seals++
			last := groups[len(groups)-1]
			if !last.HasIndex {
				return common.Failf("sealed-no-index", "%s: %s is sealed in metadata but its last batch has no index frame", where, name), 0
			}
			if si.IndexStart != uint64(last.IndexOffset+refmodel.FrameHdrLen) {
				return common.Failf("indexstart", "%s: %s metadata IndexStart=%d, index payload is at %d", where, name, si.IndexStart, last.IndexOffset+refmodel.FrameHdrLen), 0
			}
		} else {
			if i != len(st.Segments)-1 {
				return common.Failf("unsealed-not-last", "%s: unsealed segment %s is not the last", where, name), 0
			}
			if si.IndexStart != 0 || si.MaxIndex != 0 {
				return common.Failf("tail-meta", "%s: tail %s has IndexStart=%d MaxIndex=%d", where, name, si.IndexStart, si.MaxIndex), 0
			}
		}
	}
	// the segments' [Min,Max] ranges tile the model's range exactly
	next := m.First
	for i, si := range st.Segments {
		max := si.MaxIndex
		if si.SealTime.IsZero() {
			fm := files[si.ID]
			n := 0
			for _, g := range fm.groups {
				n += len(g.Entries)
			}
			if n == 0 {
				continue
			}
			max = si.BaseIndex + uint64(n) - 1
		}
		if m.Empty() {
			return common.Failf("meta-range", "%s: log is empty but segment %d claims [%d,%d]", where, si.ID, si.MinIndex, max), 0
		}
		if si.MinIndex != next {
			return common.Failf("meta-range", "%s: segment #%d (id %d) MinIndex=%d, expected %d (model [%d,%d])", where, i, si.ID, si.MinIndex, next, m.First, m.Last), 0
		}
		next = max + 1
	}
	if !m.Empty() && next != m.Last+1 {
		return common.Failf("meta-range", "%s: segments cover up to %d, model last is %d", where, next-1, m.Last), 0
	}
	for _, n := range d.names() {
		if !want[n] {
			return common.Failf("stray-file", "%s: file %s is not listed in metadata", where, n), 0
		}
	}
	return nil, seals
}

func clip(b []byte) []byte {
	if len(b) > 32 {
		return b[:32]
	}
	return b
}

func runFormat(c Case) (res common.Result) {
	cfg := kit.Cfg{SegSize: c.SegSize}
	var d dirReader
	if c.Real {
		dir, err := os.MkdirTemp("", "verif-fmt-")
		if err != nil {
			res.Fail = common.Failf("harness", "%v", err)
			return
		}
		defer os.RemoveAll(dir)
		cfg.Dir = dir
		d = realDir{dir}
	} else {
		fs := simfs.New()
		cfg.FS = fs
		d = simDir{fs}
	}
	w, err := cfg.Open()
	if err != nil {
		res.Fail = common.Failf("open-fresh", "%v", err)
		return
	}
	defer func() {
		if w != nil {
			w.Close()
		}
	}()
	m := refmodel.NewLogModel()
	files := map[uint64]*fileModel{}
	var gen uint8
	residues := map[int]bool{}
	batches, seals := 0, 0
	// metadata is only readable with bbolt while the WAL is closed (real backend)
	metaNow := func() (types.PersistentState, error) {
		if c.Real {
			w.Close()
			st, err := d.meta()
			if err != nil {
				return st, err
			}
			w, err = cfg.Open()
			return st, err
		}
		return d.meta()
	}
	track := func(st types.PersistentState) {
		for _, si := range st.Segments {
			if files[si.ID] == nil {
				files[si.ID] = &fileModel{hdr: refmodel.Header{BaseIndex: si.BaseIndex, ID: si.ID, Codec: si.Codec}}
			}
		}
	}
	for i, op := range c.Ops {
		where := fmt.Sprintf("after step %d %s (seg=%d)", i, op.K, c.SegSize)
		switch op.K {
		case "append":
			start := m.Last + 1
			if m.Empty() {
				start = op.Start
			}
			var logs []*raft.Log
			var payloads [][]byte
			for j, e := range op.Entries {
				l := e.Make(start+uint64(j), gen)
				logs = append(logs, l)
				p, err := refmodel.EncodeLog(l)
				if err != nil {
					res.Fail = common.Failf("harness", "%v", err)
					return
				}
				payloads = append(payloads, p)
				residues[len(p)%8] = true
			}
			if err := w.StoreLogs(logs); err != nil {
				res.Fail = common.Failf("append-err", "%s: %v", where, err)
				return
			}
			kit.Barrier(w)
			m.Append(logs)
			batches++
			st, err := metaNow()
			if err != nil {
				res.Fail = common.Failf("harness", "reading metadata: %v", err)
				return
			}
			track(st)
			// the batch went to the segment whose base is the greatest <= start
			var target *types.SegmentInfo
			for k := range st.Segments {
				if st.Segments[k].BaseIndex <= start {
					target = &st.Segments[k]
				}
			}
			if target == nil {
				res.Fail = common.Failf("meta-range", "%s: no segment with BaseIndex <= %d", where, start)
				return
			}
			fm := files[target.ID]
			g := refmodel.Group{Entries: payloads}
			if !target.SealTime.IsZero() && !fm.sealed {
				g.HasIndex = true
				fm.sealed = true
			}
			fm.groups = append(fm.groups, g)
		case "delhead", "deltail", "delall":
			if m.Empty() {
				continue
			}
			var min, max uint64
			switch op.K {
			case "delhead":
				min, max = m.First, m.First+uint64(op.A)
			case "deltail":
				min, max = m.Last-uint64(op.A)%m.Len(), m.Last
			default:
				min, max = m.First, m.Last
			}
			before, err := metaNow()
			if err != nil {
				res.Fail = common.Failf("harness", "%v", err)
				return
			}
			if err := w.DeleteRange(min, max); err != nil {
				res.Fail = common.Failf("delete-err", "%s: %v", where, err)
				return
			}
			kit.Barrier(w)
			wasTail := m.ClassifyDelete(min, max) == refmodel.DelTail
			m.Delete(min, max)
			gen++
			st, err := metaNow()
			if err != nil {
				res.Fail = common.Failf("harness", "%v", err)
				return
			}
			track(st)
			if wasTail && len(before.Segments) > 0 {
				// a tail that survives the truncation partially is force-sealed: index + commit, no entries
				bt := before.Segments[len(before.Segments)-1]
				for _, si := range st.Segments {
					if si.ID == bt.ID && !si.SealTime.IsZero() && !files[si.ID].sealed {
						files[si.ID].groups = append(files[si.ID].groups, refmodel.Group{HasIndex: true})
						files[si.ID].sealed = true
					}
				}
			}
		case "reopen":
			w.Close()
			w, err = cfg.Open()
			if err != nil {
				w = nil
				res.Fail = common.Failf("reopen-err", "%s: %v", where, err)
				return
			}
		}
		st, err := metaNow()
		if err != nil {
			res.Fail = common.Failf("harness", "%v", err)
			return
		}
		track(st)
		f, s := checkFiles(d, st, files, m, where)
		if f != nil {
			res.Fail = f
			return
		}
		seals = s
		if sig, msg := kit.CheckAgainst(w, m, nil); sig != "" {
			res.Fail = common.Failf("model/"+sig, "%s: %s", where, msg)
			return
		}
	}
	nonzero := 0
	for r := range residues {
		if r != 0 {
			nonzero++
		}
	}
	res.NonTrivial = batches >= 2 && nonzero >= 1
	if seals > 0 {
		res.Classes = append(res.Classes, "has-sealed-segment")
	}
	if len(residues) >= 4 {
		res.Classes = append(res.Classes, "many-padding-residues")
	}
	return
}

func TestC09Sim(t *testing.T)  { common.Run(t, "C09", "C09Sim", genCase(false), runFormat) }
func TestC09Real(t *testing.T) { common.Run(t, "C09", "C09Real", genCase(true), runFormat) }

var _ = wal.Open
