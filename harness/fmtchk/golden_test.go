package fmtchk

import (
	"encoding/json"
	"fmt"
	"io"
	"os"
	"path/filepath"
	"sort"
	"testing"
	"time"

	"github.com/hashicorp/raft"

	"verifharness/common"
	"verifharness/kit"
	"verifharness/refmodel"
)

// goldenHistories are the workloads whose directories were written once by the
// pinned version (snapshot 26a95c4) into /verif/golden/<name>/.
type gOp struct {
	K     string
	N     int
	Size  int
	Start uint64
	Min   uint64
	Max   uint64
}

type goldenHist struct {
	Name string
	Seg  int
	Ops  []gOp
}

var goldenHistories = []goldenHist{
	{"plain", 4096, []gOp{{K: "append", N: 3, Size: 10, Start: 1}, {K: "append", N: 1, Size: 0}, {K: "append", N: 2, Size: 77}}},
	{"multi-segment", 512, []gOp{{K: "append", N: 4, Size: 100, Start: 1}, {K: "append", N: 4, Size: 100}, {K: "append", N: 5, Size: 60}, {K: "append", N: 1, Size: 9}}},
	{"head-truncated-in-segment", 1024, []gOp{{K: "append", N: 6, Size: 100, Start: 1}, {K: "append", N: 6, Size: 100}, {K: "del", Min: 1, Max: 3}, {K: "append", N: 2, Size: 33}}},
	{"tail-truncated-reappended", 512, []gOp{{K: "append", N: 5, Size: 80, Start: 1}, {K: "append", N: 5, Size: 80}, {K: "del", Min: 7, Max: 10}, {K: "append", N: 3, Size: 45}}},
	{"everything-deleted", 512, []gOp{{K: "append", N: 6, Size: 90, Start: 1}, {K: "del", Min: 1, Max: 6}}},
	{"everything-deleted-reappended", 512, []gOp{{K: "append", N: 6, Size: 90, Start: 1}, {K: "del", Min: 1, Max: 6}, {K: "append", N: 2, Size: 20, Start: 7}}},
	{"high-start-index", 2048, []gOp{{K: "append", N: 3, Size: 50, Start: 1 << 40}, {K: "append", N: 30, Size: 120}}},
	{"large-entry-over-64KiB", 4096, []gOp{{K: "append", N: 1, Size: 70000, Start: 1}, {K: "append", N: 2, Size: 15}}},
	{"stable-keys", 4096, []gOp{{K: "append", N: 2, Size: 12, Start: 1}, {K: "set"}, {K: "append", N: 1, Size: 5}}},
}

type goldenEntry struct {
	Index      uint64    `json:"index"`
	Term       uint64    `json:"term"`
	Type       uint8     `json:"type"`
	Data       []byte    `json:"data"`
	Extensions []byte    `json:"extensions"`
	AppendedAt time.Time `json:"appendedAt"`
}

type goldenManifest struct {
	Name      string            `json:"name"`
	SegSize   int               `json:"segSize"`
	WrittenBy string            `json:"writtenBy"`
	First     uint64            `json:"first"`
	Last      uint64            `json:"last"`
	Entries   []goldenEntry     `json:"entries"`
	Stable    map[string][]byte `json:"stable"`
	StableU64 map[string]uint64 `json:"stableU64"`
}

func goldenRoot() string {
	d := os.Getenv("VERIF_DIR")
	if d == "" {
		d = "/verif"
	}
	return filepath.Join(d, "golden")
}

// TestGoldenGenerate writes the fixtures. It is run once against the pinned
// tree (VERIF_REPO pointing at a checkout of the snapshot commit) with
// VERIF_GOLDEN_WRITE=1; it is skipped in every check.
func TestGoldenGenerate(t *testing.T) {
	if os.Getenv("VERIF_GOLDEN_WRITE") == "" {
		t.Skip("fixtures are generated once from the pinned tree")
	}
	for _, h := range goldenHistories {
		dir := filepath.Join(goldenRoot(), h.Name)
		os.RemoveAll(dir)
		if err := os.MkdirAll(dir, 0o755); err != nil {
			t.Fatal(err)
		}
		w, err := kit.Cfg{SegSize: h.Seg, Dir: dir}.Open()
		if err != nil {
			t.Fatal(err)
		}
		m := refmodel.NewLogModel()
		man := goldenManifest{Name: h.Name, SegSize: h.Seg, WrittenBy: os.Getenv("VERIF_GOLDEN_COMMIT"), Stable: map[string][]byte{}, StableU64: map[string]uint64{}}
		seed := uint8(1)
		for _, op := range h.Ops {
			switch op.K {
			case "append":
				start := m.Last + 1
				if m.Empty() {
					start = op.Start
				}
				var logs []*raft.Log
				for i := 0; i < op.N; i++ {
					e := kit.EntrySpec{DataLen: op.Size + i%3, Seed: seed, Term: uint64(seed), Type: seed % 3, Time: int64(seed) * 1e15}
					if i%4 == 1 {
						e.ExtLen = 5
					}
					seed++
					logs = append(logs, e.Make(start+uint64(i), 0))
				}
				if err := w.StoreLogs(logs); err != nil {
					t.Fatal(err)
				}
				kit.Barrier(w)
				m.Append(logs)
			case "del":
				if err := w.DeleteRange(op.Min, op.Max); err != nil {
					t.Fatal(err)
				}
				kit.Barrier(w)
				m.Delete(op.Min, op.Max)
			case "set":
				w.Set([]byte("LastVoteCand"), []byte("node-a"))
				w.SetUint64([]byte("CurrentTerm"), 42)
				w.SetUint64([]byte("LastVoteTerm"), 1<<40+3)
				man.Stable["LastVoteCand"] = []byte("node-a")
				man.StableU64["CurrentTerm"] = 42
				man.StableU64["LastVoteTerm"] = 1<<40 + 3
			}
		}
		w.Close()
		man.First, man.Last = m.First, m.Last
		for i := m.First; i <= m.Last && m.Last > 0; i++ {
			l, _ := m.Get(i)
			man.Entries = append(man.Entries, goldenEntry{l.Index, l.Term, uint8(l.Type), l.Data, l.Extensions, l.AppendedAt})
		}
		b, _ := json.MarshalIndent(man, "", " ")
		if err := os.WriteFile(filepath.Join(dir, "manifest.json"), b, 0o644); err != nil {
			t.Fatal(err)
		}
	}
}

func copyDir(src, dst string) error {
	ents, err := os.ReadDir(src)
	if err != nil {
		return err
	}
	for _, e := range ents {
		if e.Name() == "manifest.json" {
			continue
		}
		in, err := os.Open(filepath.Join(src, e.Name()))
		if err != nil {
			return err
		}
		out, err := os.Create(filepath.Join(dst, e.Name()))
		if err != nil {
			in.Close()
			return err
		}
		_, err = io.Copy(out, in)
		in.Close()
		out.Close()
		if err != nil {
			return err
		}
	}
	return nil
}

// TestC09Golden opens every golden directory with the current tree.
func TestC09Golden(t *testing.T) {
	rec := common.Get("C09")
	root := goldenRoot()
	ents, err := os.ReadDir(root)
	if err != nil {
		t.Fatalf("no golden fixtures: %v", err)
	}
	var names []string
	for _, e := range ents {
		if e.IsDir() {
			names = append(names, e.Name())
		}
	}
	sort.Strings(names)
	if len(names) < 8 {
		t.Fatalf("only %d golden fixtures found", len(names))
	}
	fail := func(name, sig, format string, a ...any) {
		f := common.Failf("golden/"+sig, "golden %s: %s", name, fmt.Sprintf(format, a...))
		rec.Violate("C09Golden", map[string]string{"golden": name}, f)
		t.Error(f.Msg)
	}
	for _, name := range names {
		src := filepath.Join(root, name)
		var man goldenManifest
		b, err := os.ReadFile(filepath.Join(src, "manifest.json"))
		if err != nil || json.Unmarshal(b, &man) != nil {
			t.Fatalf("golden %s: bad manifest: %v", name, err)
		}
		tmp, err := os.MkdirTemp("", "verif-golden-")
		if err != nil {
			t.Fatal(err)
		}
		if err := copyDir(src, tmp); err != nil {
			t.Fatal(err)
		}
		func() {
			defer os.RemoveAll(tmp)
			// (1) the bytes written by the pinned version parse per the README and the bolt record has the documented shape
			st, err := readBoltMeta(filepath.Join(tmp, "wal-meta.db"))
			if err != nil {
				fail(name, "meta", "metadata record unreadable with bbolt (bucket wal-meta, key m): %v", err)
				return
			}
			for _, si := range st.Segments {
				fb, err := os.ReadFile(filepath.Join(tmp, refmodel.FileName(si.BaseIndex, si.ID)))
				if err != nil {
					fail(name, "file-name", "segment file not found under the documented name: %v", err)
					return
				}
				h, groups, committed, err := refmodel.DecodeSegment(fb)
				if err != nil && committed == 0 && len(groups) == 0 && allZero(fb) {
					continue // never-written tail
				}
				if err != nil {
					fail(name, "decode", "%s: %v", refmodel.FileName(si.BaseIndex, si.ID), err)
					return
				}
				if h.BaseIndex != si.BaseIndex || h.ID != si.ID || h.Codec != si.Codec {
					fail(name, "header", "header %+v vs metadata %+v", h, si)
					return
				}
				if re := refmodel.EncodeSegment(h, groups); string(re) != string(fb[:committed]) {
					fail(name, "reencode", "%s is not reproduced by the README encoder", refmodel.FileName(si.BaseIndex, si.ID))
					return
				}
			}
			// (2) the current tree opens it with identical contents
			w, err := kit.Cfg{SegSize: man.SegSize, Dir: tmp}.Open()
			if err != nil {
				fail(name, "open", "current tree cannot open a directory written by %s: %v", man.WrittenBy, err)
				return
			}
			defer w.Close()
			m := refmodel.NewLogModel()
			var logs []*raft.Log
			for _, e := range man.Entries {
				logs = append(logs, &raft.Log{Index: e.Index, Term: e.Term, Type: raft.LogType(e.Type), Data: e.Data, Extensions: e.Extensions, AppendedAt: e.AppendedAt})
			}
			m.Append(logs)
			if sig, msg := kit.CheckAgainst(w, m, nil); sig != "" {
				fail(name, "contents/"+sig, "%s", msg)
				return
			}
			for k, v := range man.Stable {
				got, err := w.Get([]byte(k))
				if err != nil || string(got) != string(v) {
					fail(name, "stable", "Get(%q) = %q, %v; want %q", k, got, err, v)
				}
			}
			for k, v := range man.StableU64 {
				got, err := w.GetUint64([]byte(k))
				if err != nil || got != v {
					fail(name, "stable", "GetUint64(%q) = %d, %v; want %d", k, got, err, v)
				}
			}
			// (3) and keeps writing to it
			next := man.Last + 1
			if man.Last == 0 {
				next = 1
			}
			if err := w.StoreLogs([]*raft.Log{{Index: next, Data: []byte("new")}}); err != nil {
				fail(name, "append", "StoreLogs(%d) on the golden directory = %v", next, err)
			}
		}()
		rec.Count(1, common.Hash("golden:"+name))
		rec.Class("golden:"+name, 1)
	}
}

func allZero(b []byte) bool {
	for _, x := range b {
		if x != 0 {
			return false
		}
	}
	return true
}
