// Package kit has helpers shared by the engines: opening a WAL on a backend,
// building entries from compact descriptions, and comparing a store with the
// reference model.
package kit

import (
	"errors"
	"fmt"
	"sort"
	"time"

	"github.com/hashicorp/go-hclog"
	"github.com/hashicorp/raft"
	wal "github.com/hashicorp/raft-wal"
	"github.com/hashicorp/raft-wal/metrics"
	"github.com/hashicorp/raft-wal/segment"
	"github.com/hashicorp/raft-wal/types"

	"verifharness/refmodel"
	"verifharness/simfs"
)

func opts[T any](o ...T) []T { return o }

// Cfg describes how to open a WAL.
type Cfg struct {
	SegSize int
	FS      *simfs.FS // nil => real filesystem in Dir
	Dir     string
	Codec   wal.Codec
	Metrics metrics.Collector
	Meta    types.MetaStore // override
	Filer   types.SegmentFiler
	// MetaCloseErr makes the simulated MetaStore's Close report this error.
	MetaCloseErr error
}

const SimDir = "simdir"

func (c Cfg) Open() (*wal.WAL, error) {
	o := opts(wal.WithLogger(hclog.NewNullLogger()))
	if c.SegSize != 0 {
		o = append(o, wal.WithSegmentSize(c.SegSize))
	}
	dir := c.Dir
	if c.FS != nil {
		dir = SimDir
		meta := c.FS.Meta()
		meta.CloseErr = c.MetaCloseErr
		o = append(o, wal.WithSegmentFiler(segment.NewFiler(SimDir, c.FS)), wal.WithMetaStore(meta))
	}
	if c.Filer != nil {
		o = append(o, wal.WithSegmentFiler(c.Filer))
	}
	if c.Meta != nil {
		o = append(o, wal.WithMetaStore(c.Meta))
	}
	if c.Codec != nil {
		o = append(o, wal.WithCodec(c.Codec))
	}
	if c.Metrics != nil {
		o = append(o, wal.WithMetricsCollector(c.Metrics))
	}
	return wal.Open(dir, o...)
}

// EntrySpec is a compact, serialisable description of a log entry's content.
type EntrySpec struct {
	Term    uint64 `json:"t,omitempty"`
	Type    uint8  `json:"ty,omitempty"`
	DataLen int    `json:"dl"`
	ExtLen  int    `json:"el,omitempty"`
	Seed    uint8  `json:"s,omitempty"`
	NilData bool   `json:"nd,omitempty"` // Data nil instead of empty when DataLen==0
	Time    int64  `json:"tm,omitempty"` // unix nanos (UTC); 0 => zero time
}

// Fill produces deterministic bytes from (seed, index, salt).
func Fill(n int, seed uint8, idx uint64, salt uint8) []byte {
	b := make([]byte, n)
	x := uint64(seed)*0x9E3779B97F4A7C15 + idx*0xBF58476D1CE4E5B9 + uint64(salt)*0x94D049BB133111EB + 1
	for i := range b {
		x ^= x << 13
		x ^= x >> 7
		x ^= x << 17
		b[i] = byte(x)
	}
	return b
}

// Make builds the raft.Log for index idx. gen distinguishes generations of the
// same index (re-append after a tail truncation must have different content).
func (e EntrySpec) Make(idx uint64, gen uint8) *raft.Log {
	l := &raft.Log{Index: idx, Term: e.Term, Type: raft.LogType(e.Type)}
	if e.DataLen > 0 {
		l.Data = Fill(e.DataLen, e.Seed+gen*31, idx, 1)
	} else if !e.NilData {
		l.Data = []byte{}
	}
	if e.ExtLen > 0 {
		l.Extensions = Fill(e.ExtLen, e.Seed+gen*31, idx, 2)
	}
	if e.Time != 0 {
		l.AppendedAt = time.Unix(0, e.Time).UTC()
	}
	return l
}

// Store is the read API shared by WAL and other LogStores.
type Store interface {
	FirstIndex() (uint64, error)
	LastIndex() (uint64, error)
	GetLog(uint64, *raft.Log) error
}

// CheckAgainst compares bounds and a window of reads with the model. extra
// are additional indexes to probe. Returns "" or a description of the first
// difference. sig is a short classifier of the difference.
func CheckAgainst(s Store, m *refmodel.LogModel, extra []uint64) (sig, msg string) {
	f, err := s.FirstIndex()
	if err != nil {
		return "first-err", fmt.Sprintf("FirstIndex error: %v", err)
	}
	l, err := s.LastIndex()
	if err != nil {
		return "last-err", fmt.Sprintf("LastIndex error: %v", err)
	}
	if f != m.First || l != m.Last {
		return "bounds", fmt.Sprintf("bounds: store [%d,%d] model [%d,%d]", f, l, m.First, m.Last)
	}
	probe := map[uint64]bool{0: true}
	add := func(i uint64) { probe[i] = true }
	lo, hi := m.First, m.Last
	if !m.Empty() {
		for d := uint64(0); d <= 2; d++ {
			if lo > d {
				add(lo - d)
			}
			add(hi + d)
		}
		n := hi - lo + 1
		if n <= 96 {
			for i := lo; i <= hi; i++ {
				add(i)
			}
		} else {
			for i := uint64(0); i < 48; i++ {
				add(lo + i)
				add(hi - i)
			}
		}
	} else {
		add(1)
		add(2)
	}
	for _, i := range extra {
		add(i)
	}
	idxs := make([]uint64, 0, len(probe))
	for i := range probe {
		idxs = append(idxs, i)
	}
	sort.Slice(idxs, func(a, b int) bool { return idxs[a] < idxs[b] })
	for _, i := range idxs {
		if s, mm := CheckGet(s, m, i); s != "" {
			return s, mm
		}
	}
	return "", ""
}

// CheckGet compares one GetLog with the model.
func CheckGet(s Store, m *refmodel.LogModel, i uint64) (sig, msg string) {
	var got raft.Log
	if _, isWAL := s.(*wal.WAL); isWAL && i%2 == 1 {
		// every other read goes into a raft.Log that still holds another entry's fields (callers
		// re-use one variable in a loop): a successful GetLog must overwrite all of them
		got = raft.Log{Index: ^uint64(0), Term: 77, Type: 9, Data: []byte("stale data"), Extensions: []byte("stale ext"), AppendedAt: time.Unix(5, 5)}
	}
	err := s.GetLog(i, &got)
	want, ok := m.Get(i)
	if ok {
		if err != nil {
			return "get-present-err", fmt.Sprintf("GetLog(%d) = %v, model has the entry (model [%d,%d])", i, err, m.First, m.Last)
		}
		if d := refmodel.Diff(want, &got); d != "" {
			return "get-content", fmt.Sprintf("GetLog(%d) content: %s", i, d)
		}
		return "", ""
	}
	if err == nil {
		return "get-absent-ok", fmt.Sprintf("GetLog(%d) succeeded (Index=%d len(Data)=%d) but model [%d,%d] has no such entry", i, got.Index, len(got.Data), m.First, m.Last)
	}
	if !errors.Is(err, raft.ErrLogNotFound) {
		return "get-absent-wrongerr", fmt.Sprintf("GetLog(%d) = %q, want raft.ErrLogNotFound (model [%d,%d])", i, err, m.First, m.Last)
	}
	return "", ""
}

// Barrier waits for any queued background rotation to finish without doing
// I/O: a DeleteRange beyond the end takes the write lock, awaits rotation and
// is then a no-op.
func Barrier(w *wal.WAL) {
	l, err := w.LastIndex()
	if err != nil {
		return
	}
	_ = w.DeleteRange(l+2, l+2)
}

// DirVsMeta compares the simulated directory with the file set named by the committed
// metadata: extra = files no segment of the metadata accounts for, missing = listed
// segments without a file.
func DirVsMeta(fs *simfs.FS) (extra, missing []string) {
	st, _ := fs.MetaState()
	want := map[string]bool{}
	for _, si := range st.Segments {
		want[segment.FileName(si)] = true
	}
	have := map[string]bool{}
	for _, n := range fs.Names() {
		have[n] = true
		if !want[n] {
			extra = append(extra, n)
		}
	}
	for n := range want {
		if !have[n] {
			missing = append(missing, n)
		}
	}
	sort.Strings(extra)
	sort.Strings(missing)
	return
}
