// Package common is the shared runner: it turns (generator, runCase) pairs
// into rapid properties, records what was generated, writes replay files and
// per-shard statistics for the driver (/verif/check).
package common

import (
	"encoding/json"
	"fmt"
	"hash/fnv"
	"os"
	"path/filepath"
	"regexp"
	"runtime"
	"runtime/debug"
	"sort"
	"strings"
	"sync"
	"testing"
	"time"

	"pgregory.net/rapid"
)

// Failure is a verdict against the property under test.
type Failure struct {
	Sig string // classifier output, matched against known_findings.json
	Msg string
}

func Failf(sig, format string, a ...any) *Failure {
	return &Failure{Sig: sig, Msg: fmt.Sprintf(format, a...)}
}

// Result of running one case.
type Result struct {
	NonTrivial bool
	Classes    []string
	Fail       *Failure
	// Sub is the number of sub-evaluations (e.g. crash variants) inside the case; 0 means 1.
	Sub int
	// SubNonTrivial hashes of non-trivial sub-evaluations (distinct counted by union).
	SubNT []uint64
	// Note is free-form text attached to samples.
	Note string
	// Inconclusive is set when the harness could not reach a verdict for this case.
	Inconclusive string
}

type Violation struct {
	Property  string `json:"property"`
	Slot      string `json:"slot"`
	Signature string `json:"signature"`
	Message   string `json:"message"`
	Replay    string `json:"replay"`
}

type knownEntry struct {
	Property    string `json:"property"`
	ID          string `json:"id"`
	Status      string `json:"status"`
	Signature   string `json:"signature"`
	Description string `json:"description"`
}

type Recorder struct {
	mu          sync.Mutex
	Prop        string
	Evaluations int64
	nt          map[uint64]struct{}
	Classes     map[string]int64
	Samples     []json.RawMessage
	violations  map[string]Violation // by slot, last wins (the shrunk one)
	Known       map[string]int64     // known finding id -> hits
	Excluded    int64
	Extra       map[string]any
}

var (
	regMu     sync.Mutex
	reg       = map[string]*Recorder{}
	known     []knownEntry
	knownOnce sync.Once
)

func Get(prop string) *Recorder {
	regMu.Lock()
	defer regMu.Unlock()
	r, ok := reg[prop]
	if !ok {
		r = &Recorder{Prop: prop, nt: map[uint64]struct{}{}, Classes: map[string]int64{}, violations: map[string]Violation{}, Known: map[string]int64{}, Extra: map[string]any{}}
		reg[prop] = r
	}
	return r
}

func Tier() string {
	if t := os.Getenv("VERIF_TIER"); t == "thorough" {
		return "thorough"
	}
	return "quick"
}

func Thorough() bool { return Tier() == "thorough" }

// Pick returns q in the quick tier and t in the thorough tier.
func Pick(q, t int) int {
	if Thorough() {
		return t
	}
	return q
}

func Hash(v any) uint64 {
	b, _ := json.Marshal(v)
	h := fnv.New64a()
	h.Write(b)
	return h.Sum64()
}

func HashBytes(parts ...[]byte) uint64 {
	h := fnv.New64a()
	for _, p := range parts {
		h.Write(p)
		h.Write([]byte{0xff})
	}
	return h.Sum64()
}

func loadKnown() {
	p := os.Getenv("VERIF_KNOWN")
	if p == "" {
		p = "/verif/known_findings.json"
	}
	b, err := os.ReadFile(p)
	if err != nil {
		return
	}
	var f struct {
		Findings []knownEntry `json:"findings"`
	}
	if json.Unmarshal(b, &f) == nil {
		known = f.Findings
	}
}

// KnownID returns the id of the open known finding matching (prop, sig), or "".
func KnownID(prop, sig string) string {
	knownOnce.Do(loadKnown)
	for _, k := range known {
		if k.Status == "open" && k.Property == prop && k.Signature != "" && strings.HasPrefix(sig, k.Signature) {
			return k.ID
		}
	}
	return ""
}

func (r *Recorder) Class(c string, n int64) {
	r.mu.Lock()
	r.Classes[c] += n
	r.mu.Unlock()
}

// Count adds n evaluations that are not rapid cases (enumerations, scans).
func (r *Recorder) Count(n int64, ntHashes ...uint64) {
	r.mu.Lock()
	r.Evaluations += n
	for _, h := range ntHashes {
		r.nt[h] = struct{}{}
	}
	r.mu.Unlock()
}

func (r *Recorder) SetExtra(k string, v any) {
	r.mu.Lock()
	r.Extra[k] = v
	r.mu.Unlock()
}

func (r *Recorder) AddExtra(k string, n int64) {
	r.mu.Lock()
	if cur, ok := r.Extra[k].(int64); ok {
		r.Extra[k] = cur + n
	} else {
		r.Extra[k] = n
	}
	r.mu.Unlock()
}

// Record accounts one evaluated case.
func (r *Recorder) Record(c any, res Result) {
	r.mu.Lock()
	defer r.mu.Unlock()
	if res.Inconclusive != "" {
		n, _ := r.Extra["inconclusive_cases"].(int64)
		r.Extra["inconclusive_cases"] = n + 1
		r.Extra["inconclusive_last"] = res.Inconclusive
		return
	}
	n := int64(res.Sub)
	if n == 0 {
		n = 1
	}
	r.Evaluations += n
	if res.NonTrivial {
		r.nt[Hash(c)] = struct{}{}
	}
	for _, h := range res.SubNT {
		r.nt[h] = struct{}{}
	}
	for _, cl := range res.Classes {
		r.Classes[cl]++
	}
	if len(r.Samples) < 4 && (res.NonTrivial || len(res.SubNT) > 0) {
		b, _ := json.Marshal(map[string]any{"case": c, "classes": res.Classes, "note": res.Note})
		if len(b) < 6000 {
			r.Samples = append(r.Samples, b)
		}
	}
}

func replayDir() string {
	d := os.Getenv("VERIF_REPLAY_DIR")
	if d == "" {
		d = "/verif/replays"
	}
	return d
}

type replayFile struct {
	Property  string          `json:"property"`
	Slot      string          `json:"slot"`
	Signature string          `json:"signature"`
	Message   string          `json:"message"`
	Case      json.RawMessage `json:"case"`
}

// Violate records a violation for the slot (overwriting earlier, larger
// counterexamples of the same slot) and writes the replay file.
func (r *Recorder) Violate(slot string, c any, f *Failure) string {
	b, _ := json.Marshal(c)
	shard := os.Getenv("VERIF_SHARD")
	dir := filepath.Join(replayDir(), r.Prop)
	os.MkdirAll(dir, 0o755)
	path := filepath.Join(dir, fmt.Sprintf("%s-s%s.json", slot, shard))
	rf := replayFile{Property: r.Prop, Slot: slot, Signature: f.Sig, Message: f.Msg, Case: b}
	out, _ := json.MarshalIndent(rf, "", " ")
	os.WriteFile(path, out, 0o644)
	r.mu.Lock()
	r.violations[slot] = Violation{Property: r.Prop, Slot: slot, Signature: f.Sig, Message: f.Msg, Replay: path}
	r.mu.Unlock()
	return path
}

// Handle applies the known-findings policy to a failure: returns true if the
// caller must fail the test (a violation not listed as an open known finding).
func (r *Recorder) Handle(slot string, c any, f *Failure) bool {
	if f == nil {
		return false
	}
	if id := KnownID(r.Prop, f.Sig); id != "" {
		r.mu.Lock()
		r.Known[id]++
		r.mu.Unlock()
		return false
	}
	r.Violate(slot, c, f)
	return true
}

// Flush writes every recorder to $VERIF_OUT (one JSON document).
func Flush() {
	out := os.Getenv("VERIF_OUT")
	if out == "" {
		return
	}
	regMu.Lock()
	defer regMu.Unlock()
	type rec struct {
		Prop        string            `json:"prop"`
		Evaluations int64             `json:"evaluations"`
		NT          []uint64          `json:"nt"`
		Classes     map[string]int64  `json:"classes"`
		Samples     []json.RawMessage `json:"samples"`
		Violations  []Violation       `json:"violations"`
		Known       map[string]int64  `json:"known"`
		Extra       map[string]any    `json:"extra"`
	}
	var all []rec
	props := make([]string, 0, len(reg))
	for p := range reg {
		props = append(props, p)
	}
	sort.Strings(props)
	for _, p := range props {
		r := reg[p]
		r.mu.Lock()
		x := rec{Prop: p, Evaluations: r.Evaluations, Classes: r.Classes, Samples: r.Samples, Known: r.Known, Extra: r.Extra}
		for h := range r.nt {
			x.NT = append(x.NT, h)
		}
		sort.Slice(x.NT, func(i, j int) bool { return x.NT[i] < x.NT[j] })
		slots := make([]string, 0, len(r.violations))
		for s := range r.violations {
			slots = append(slots, s)
		}
		sort.Strings(slots)
		for _, s := range slots {
			x.Violations = append(x.Violations, r.violations[s])
		}
		r.mu.Unlock()
		all = append(all, x)
	}
	b, _ := json.Marshal(all)
	os.WriteFile(out, b, 0o644)
}

// Main is the TestMain body for every engine package.
func Main(m *testing.M) {
	code := m.Run()
	Flush()
	os.Exit(code)
}

// HarnessProblem is panicked by harness code when the environment (not the
// code under test) prevents a verdict: it is reported as inconclusive, never
// as a violation.
type HarnessProblem string

// Inconclusive aborts the current case as a harness problem.
func Inconclusive(format string, a ...any) {
	panic(HarnessProblem(fmt.Sprintf(format, a...)))
}

// safeRun runs fn converting a panic into a Failure.
func safeRun[C any](run func(C) Result, c C) (res Result) {
	defer func() {
		if p := recover(); p != nil {
			if hp, ok := p.(HarnessProblem); ok {
				res = Result{Inconclusive: string(hp)}
				return
			}
			res.Fail = &Failure{Sig: "panic", Msg: fmt.Sprintf("panic: %v\n%s", p, debug.Stack())}
		}
	}()
	return run(c)
}

// Run is the standard shape of a check: generate a case (pure data), run it,
// record, and on failure write a replay file and let rapid shrink. With
// VERIF_REPLAY set it runs that saved case instead, bypassing rapid.
func Run[C any](t *testing.T, prop, slot string, gen func(*rapid.T) C, run func(C) Result) {
	rec := Get(prop)
	if rp := os.Getenv("VERIF_REPLAY"); rp != "" {
		b, err := os.ReadFile(rp)
		if err != nil {
			t.Fatalf("replay: %v", err)
		}
		var rf replayFile
		if err := json.Unmarshal(b, &rf); err != nil {
			t.Fatalf("replay: %v", err)
		}
		if rf.Slot != slot || rf.Property != prop {
			t.Skip("replay file is for another slot")
		}
		var c C
		if err := json.Unmarshal(rf.Case, &c); err != nil {
			t.Fatalf("replay: bad case: %v", err)
		}
		res := safeRun(run, c)
		rec.Record(c, res)
		if res.Fail != nil {
			if id := KnownID(prop, res.Fail.Sig); id != "" {
				rec.mu.Lock()
				rec.Known[id]++
				rec.mu.Unlock()
				t.Logf("replay reproduces known finding %s: %s", id, res.Fail.Msg)
				return
			}
			rec.mu.Lock()
			rec.violations[slot] = Violation{Property: prop, Slot: slot, Signature: res.Fail.Sig, Message: res.Fail.Msg, Replay: rp}
			rec.mu.Unlock()
			t.Fatalf("replay reproduces violation [%s]: %s", res.Fail.Sig, res.Fail.Msg)
		}
		t.Logf("replay passes")
		return
	}
	rapid.Check(t, func(rt *rapid.T) {
		c := gen(rt)
		res := safeRun(run, c)
		rec.Record(c, res)
		if rec.Handle(slot, c, res.Fail) {
			rt.Fatalf("[%s] %s", res.Fail.Sig, res.Fail.Msg)
		}
	})
}

var reGoroutineHdr = regexp.MustCompile(`^goroutine (\d+) \[([^\],]+)`)

var parkedStates = map[string]bool{"chan receive": true, "chan send": true, "select": true, "semacquire": true, "sync.Cond.Wait": true,
	"sync.Mutex.Lock": true, "sync.RWMutex.Lock": true, "sync.RWMutex.RLock": true, "chan receive (nil chan)": true, "chan send (nil chan)": true, "select (no cases)": true}

// WaitParked waits for done. While waiting it dumps all goroutine stacks every
// step; if a goroutine whose stack mentions needle is parked (channel, mutex,
// select) with the same top frame in two consecutive dumps, it returns
// (true, that stack): the call is blocked for good, judged by stack evidence
// rather than by the clock alone. A goroutine that is merely slow (runnable /
// running / in a syscall) is waited for. After cap without either outcome the
// case is inconclusive.
func WaitParked(done <-chan struct{}, needle string, step, cap time.Duration) (bool, string) {
	start := time.Now()
	prev := map[string]string{}
	for {
		select {
		case <-done:
			return false, ""
		case <-time.After(step):
		}
		buf := make([]byte, 4<<20)
		dump := string(buf[:runtime.Stack(buf, true)])
		cur := map[string]string{}
		for _, g := range strings.Split(dump, "\n\n") {
			if !strings.Contains(g, needle) {
				continue
			}
			m := reGoroutineHdr.FindStringSubmatch(g)
			if m == nil || !parkedStates[m[2]] {
				continue
			}
			lines := strings.SplitN(g, "\n", 4)
			top := ""
			if len(lines) > 1 {
				top = lines[1]
			}
			cur[m[1]] = m[2] + "@" + top
			if prev[m[1]] == cur[m[1]] {
				if len(g) > 2500 {
					g = g[:2500]
				}
				return true, g
			}
		}
		prev = cur
		if time.Since(start) > cap {
			Inconclusive("a call mentioning %q has not returned after %v but is not provably parked (machine too busy?)", needle, time.Since(start))
		}
	}
}
