package seq

import (
	"bytes"
	"errors"
	"fmt"
	"io"
	"sync"
	"testing"
	"time"
	"unsafe"

	"github.com/hashicorp/raft"
	wal "github.com/hashicorp/raft-wal"
	"pgregory.net/rapid"

	"verifharness/common"
	"verifharness/kit"
	"verifharness/refmodel"
	"verifharness/simfs"
)

// LogSpec is a fully explicit raft.Log description (pure data).
type LogSpec struct {
	Index    uint64 `json:"i"`
	Term     uint64 `json:"t"`
	Type     uint8  `json:"ty"`
	DataLen  int    `json:"dl"` // -1 => nil
	ExtLen   int    `json:"el"` // -1 => nil
	Seed     uint8  `json:"s"`
	TimeKind string `json:"tk"` // zero, utc, zone, mono
	Sec      int64  `json:"sec,omitempty"`
	Nsec     int64  `json:"ns,omitempty"`
	ZoneOff  int    `json:"zo,omitempty"` // seconds east of UTC
}

func (s LogSpec) Make() *raft.Log {
	l := &raft.Log{Index: s.Index, Term: s.Term, Type: raft.LogType(s.Type)}
	if s.DataLen >= 0 {
		l.Data = kit.Fill(s.DataLen, s.Seed, s.Index, 1)
	}
	if s.ExtLen >= 0 {
		l.Extensions = kit.Fill(s.ExtLen, s.Seed, s.Index, 2)
	}
	switch s.TimeKind {
	case "utc":
		l.AppendedAt = time.Unix(s.Sec, s.Nsec).UTC()
	case "zone":
		l.AppendedAt = time.Unix(s.Sec, s.Nsec).In(time.FixedZone("z", s.ZoneOff))
	case "mono":
		// a time carrying a monotonic reading (like time.Now()), shifted deterministically
		l.AppendedAt = time.Now().Add(time.Duration(s.Nsec))
	}
	return l
}

var varintEdges = func() []uint64 {
	v := []uint64{0, 1, 2, ^uint64(0), ^uint64(0) - 1, 1<<63 - 1, 1 << 63}
	for k := uint(1); k <= 9; k++ {
		v = append(v, 1<<(7*k)-1, 1<<(7*k), 1<<(7*k)+1)
	}
	return v
}()

func genU64(t *rapid.T, label string) (uint64, bool) {
	if rapid.IntRange(0, 2).Draw(t, label+"edge") > 0 {
		return rapid.SampledFrom(varintEdges).Draw(t, label), true
	}
	return rapid.Uint64().Draw(t, label), false
}

var lenEdges = []int{-1, 0, 1, 2, 7, 8, 9, 127, 128, 129, 16383, 16384, 16385, 65536 - 40, 65536 - 16, 65536 - 9, 65536 - 8, 65536 - 1, 65536, 65536 + 1, 65536 + 8, 65536 + 16, 70000}

func genLen(t *rapid.T, label string, big bool) (int, bool) {
	c := rapid.IntRange(0, 9).Draw(t, label+"c")
	switch {
	case c < 4:
		e := rapid.SampledFrom(lenEdges).Draw(t, label)
		if !big && e > 20000 {
			e = e % 300
		}
		return e, e > 60000
	case c < 8:
		return rapid.IntRange(0, 300).Draw(t, label), false
	default:
		if big {
			n := rapid.IntRange(65536-64, 65536+64).Draw(t, label)
			return n, true
		}
		return rapid.IntRange(0, 20000).Draw(t, label), false
	}
}

func genLogSpec(t *rapid.T, big bool) (LogSpec, bool) {
	var s LogSpec
	var e1, e2, e3 bool
	s.Index, e1 = genU64(t, "idx")
	s.Term, e2 = genU64(t, "term")
	s.Type = uint8(rapid.IntRange(0, 255).Draw(t, "type"))
	s.DataLen, e3 = genLen(t, "dl", big)
	var e4 bool
	s.ExtLen, e4 = genLen(t, "el", big && !e3)
	s.Seed = uint8(rapid.IntRange(0, 255).Draw(t, "seed"))
	s.TimeKind = rapid.SampledFrom([]string{"zero", "utc", "zone", "zone", "mono"}).Draw(t, "tk")
	switch s.TimeKind {
	case "utc", "zone":
		s.Sec = rapid.SampledFrom([]int64{0, 1, -1, 1700000000, -62135596800, 253402300799, 1 << 40}).Draw(t, "sec")
		s.Nsec = rapid.SampledFrom([]int64{0, 1, 999999999, 123456789}).Draw(t, "ns")
		if s.TimeKind == "zone" {
			s.ZoneOff = rapid.SampledFrom([]int{0, 3600, -3600, 19800, 20700, -12600, 1, 59, 86399, -86399, 32767 * 60, -32768 * 60, -7200, 45 * 60}).Draw(t, "zo")
		}
	case "mono":
		s.Nsec = int64(rapid.IntRange(0, 1000000).Draw(t, "ns"))
	}
	return s, e1 || e2 || e3 || e4
}

// ---- (1) pure codec round trip + differential against the documented encoding

// stdlibTimeOK says whether the standard library itself round-trips this time
// through MarshalBinary/UnmarshalBinary (it does not for zone offsets with a
// negative seconds component in this Go release). The codec is documented to
// use time.MarshalBinary, so such values are outside the domain.
func stdlibTimeOK(t time.Time) bool {
	b, err := t.MarshalBinary()
	if err != nil {
		return false
	}
	var u time.Time
	if u.UnmarshalBinary(b) != nil || !u.Equal(t) {
		return false
	}
	_, a := t.Zone()
	_, c := u.Zone()
	return a == c
}

func runCodecRoundTrip(s LogSpec) (res common.Result) {
	l := s.Make()
	if !stdlibTimeOK(l.AppendedAt) {
		res.Classes = []string{"time-outside-stdlib-domain"}
		return
	}
	var buf bytes.Buffer
	c := &wal.BinaryCodec{}
	if err := c.Encode(l, &buf); err != nil {
		if _, rerr := refmodel.EncodeLog(l); rerr != nil {
			// time.MarshalBinary rejects this value: outside the domain
			res.Classes = []string{"time-unencodable"}
			return
		}
		res.Fail = common.Failf("encode-err", "Encode(%+v) = %v", s, err)
		return
	}
	ref, err := refmodel.EncodeLog(l)
	if err != nil {
		res.Fail = common.Failf("encode-accepted-unencodable", "Encode succeeded but reference encoder fails: %v", err)
		return
	}
	if !bytes.Equal(ref, buf.Bytes()) {
		res.Fail = common.Failf("encoding-differs", "production encoding differs from documented encoding for %+v: got %d bytes %x..., want %d bytes %x...", s, buf.Len(), head(buf.Bytes()), len(ref), head(ref))
		return
	}
	// decode from a private copy, then scribble over the input: result must not alias it
	in := append([]byte{}, buf.Bytes()...)
	var got raft.Log
	if err := c.Decode(in, &got); err != nil {
		res.Fail = common.Failf("decode-err", "Decode(Encode(%+v)) = %v", s, err)
		return
	}
	for i := range in {
		in[i] ^= 0xff
	}
	if d := refmodel.Diff(l, &got); d != "" {
		res.Fail = common.Failf("roundtrip", "Decode(Encode(l)) != l for %+v: %s", s, d)
		return
	}
	// decode into a dirty target: every field must be overwritten
	dirty := raft.Log{Index: 99, Term: 99, Type: 9, Data: []byte("dirty"), Extensions: []byte("dirty"), AppendedAt: time.Unix(5, 5)}
	in2 := append([]byte{}, buf.Bytes()...)
	if err := c.Decode(in2, &dirty); err != nil {
		res.Fail = common.Failf("decode-err", "Decode into reused log = %v", err)
		return
	}
	if d := refmodel.Diff(l, &dirty); d != "" {
		res.Fail = common.Failf("roundtrip-dirty-target", "Decode into a reused raft.Log leaves stale fields for %+v: %s", s, d)
		return
	}
	return
}

type failAfterWriter struct{ n int }

func (w *failAfterWriter) Write(p []byte) (int, error) {
	if len(p) <= w.n {
		w.n -= len(p)
		return len(p), nil
	}
	k := w.n
	w.n = 0
	return k, fmt.Errorf("injected writer failure")
}

// failingEncode issues an Encode that cannot succeed and requires an error.
func failingEncode(kind string, n int) *common.Failure {
	c := &wal.BinaryCodec{}
	l := &raft.Log{Index: 7, Term: 3, Type: raft.LogCommand, Data: bytes.Repeat([]byte{0xab}, 64), AppendedAt: time.Unix(1700000000, 1).UTC()}
	switch kind {
	case "badtime":
		l.AppendedAt = time.Unix(1700000000, 1).In(time.FixedZone("minus-one-minute", -60))
		var buf bytes.Buffer
		if err := c.Encode(l, &buf); err == nil {
			return common.Failf("encode-accepted-unencodable", "Encode of a log whose AppendedAt the standard library cannot marshal (zone offset -1 minute) returned nil")
		}
	case "badwriter":
		if err := c.Encode(l, &failAfterWriter{n: n}); err == nil {
			return common.Failf("encode-swallowed-write-error", "Encode into a writer that fails after %d bytes returned nil", n)
		}
	}
	return nil
}

func head(b []byte) []byte {
	if len(b) > 24 {
		return b[:24]
	}
	return b
}

func TestC12Codec(t *testing.T) {
	type C struct {
		L    LogSpec `json:"log"`
		Edge bool    `json:"edge"`
		// Pre: a failing Encode issued just before (an unencodable time, or a writer that
		// fails after PreN bytes); it must report an error and must not affect the next call.
		Pre  string `json:"pre,omitempty"`
		PreN int    `json:"pren,omitempty"`
	}
	common.Run(t, "C12", "C12Codec", func(t *rapid.T) C {
		l, e := genLogSpec(t, true)
		c := C{L: l, Edge: e}
		if rapid.IntRange(0, 3).Draw(t, "pre") == 0 {
			c.Pre = rapid.SampledFrom([]string{"badtime", "badwriter"}).Draw(t, "prekind")
			c.PreN = rapid.IntRange(0, 40).Draw(t, "pren")
		}
		return c
	}, func(c C) common.Result {
		if c.Pre != "" {
			if f := failingEncode(c.Pre, c.PreN); f != nil {
				return common.Result{Fail: f}
			}
		}
		r := runCodecRoundTrip(c.L)
		if c.Pre != "" {
			r.Classes = append(r.Classes, "encode-after-failed-encode")
		}
		r.NonTrivial = c.Edge
		if c.Edge {
			r.Classes = append(r.Classes, "codec-boundary-value")
		}
		if c.L.TimeKind != "zero" {
			r.Classes = append(r.Classes, "time-"+c.L.TimeKind)
		}
		return r
	})
}

// ---- (2) through a WAL, with held results across later reads (pool aliasing)

type AliasCase struct {
	SegSize int       `json:"seg"`
	Logs    []LogSpec `json:"logs"`  // stored contiguously from Logs[0].Index
	Hold    int       `json:"hold"`  // which entry to hold
	Reads   []int     `json:"reads"` // later reads (indexes into Logs)
	Reopen  bool      `json:"reopen"`
}

func genAliasCase(t *rapid.T) AliasCase {
	var c AliasCase
	c.SegSize = rapid.SampledFrom([]int{512, 4096, 1 << 20}).Draw(t, "seg")
	n := rapid.IntRange(2, 8).Draw(t, "n")
	base := rapid.SampledFrom([]uint64{1, 2, 127, 128, 16383, 1 << 40}).Draw(t, "base")
	big := rapid.IntRange(0, 3).Draw(t, "big") == 0
	for i := 0; i < n; i++ {
		l, _ := genLogSpec(t, big && i < 3)
		l.Index = base + uint64(i)
		c.Logs = append(c.Logs, l)
	}
	c.Hold = rapid.IntRange(0, n-1).Draw(t, "hold")
	k := rapid.IntRange(1, 50).Draw(t, "nreads")
	for i := 0; i < k; i++ {
		c.Reads = append(c.Reads, rapid.IntRange(0, n-1).Draw(t, "r"))
	}
	c.Reopen = rapid.Bool().Draw(t, "reopen")
	return c
}

func runAlias(c AliasCase) (res common.Result) {
	fs := simfs.New()
	cfg := kit.Cfg{SegSize: c.SegSize, FS: fs}
	w, err := cfg.Open()
	if err != nil {
		res.Fail = common.Failf("open-fresh", "%v", err)
		return
	}
	defer func() { w.Close() }()
	logs := make([]*raft.Log, len(c.Logs))
	for i, s := range c.Logs {
		logs[i] = s.Make()
		if !stdlibTimeOK(logs[i].AppendedAt) {
			res.Classes = []string{"time-outside-stdlib-domain"}
			return
		}
	}
	want := make([]*raft.Log, len(logs))
	for i := range logs {
		want[i] = refmodel.CloneLog(logs[i])
	}
	// split into batches of up to 3
	for i := 0; i < len(logs); i += 3 {
		j := i + 3
		if j > len(logs) {
			j = len(logs)
		}
		if err := w.StoreLogs(logs[i:j]); err != nil {
			res.Fail = common.Failf("append-err", "StoreLogs = %v", err)
			return
		}
		kit.Barrier(w)
	}
	if c.Reopen {
		w.Close()
		if w, err = cfg.Open(); err != nil {
			res.Fail = common.Failf("reopen-err", "%v", err)
			return
		}
	}
	var held raft.Log
	if err := w.GetLog(want[c.Hold].Index, &held); err != nil {
		res.Fail = common.Failf("get-present-err", "GetLog(%d) = %v", want[c.Hold].Index, err)
		return
	}
	if d := refmodel.Diff(want[c.Hold], &held); d != "" {
		res.Fail = common.Failf("get-content", "GetLog(%d): %s", want[c.Hold].Index, d)
		return
	}
	snapshot := refmodel.CloneLog(&held)
	// every other read decodes into one re-used destination struct (the `var l raft.Log; for {GetLog(i,&l);
	// keep = append(keep, l)}` pattern): what an earlier call returned through it must not change either
	var reuse raft.Log
	var keptShallow []raft.Log
	var keptDeep []*raft.Log
	for ri, r := range c.Reads {
		if ri%2 == 1 {
			if err := w.GetLog(want[r].Index, &reuse); err != nil {
				res.Fail = common.Failf("get-present-err", "GetLog(%d) = %v", want[r].Index, err)
				return
			}
			if d := refmodel.Diff(want[r], &reuse); d != "" {
				res.Fail = common.Failf("get-content", "GetLog(%d) into a re-used destination: %s", want[r].Index, d)
				return
			}
			for k := range keptShallow {
				if d := refmodel.Diff(keptDeep[k], &keptShallow[k]); d != "" {
					res.Fail = common.Failf("held-log-changed/reused-destination", "the log returned by an earlier GetLog(%d) changed when GetLog(%d) decoded into the same raft.Log variable: %s", keptDeep[k].Index, want[r].Index, d)
					return
				}
			}
			keptShallow = append(keptShallow, reuse)
			keptDeep = append(keptDeep, refmodel.CloneLog(&reuse))
			res.Classes = append(res.Classes, "reused-destination")
			continue
		}
		var got raft.Log
		if err := w.GetLog(want[r].Index, &got); err != nil {
			res.Fail = common.Failf("get-present-err", "GetLog(%d) = %v", want[r].Index, err)
			return
		}
		if d := refmodel.Diff(want[r], &got); d != "" {
			res.Fail = common.Failf("get-content", "GetLog(%d): %s", want[r].Index, d)
			return
		}
		// scribble on the returned slices: they must be private copies
		for i := range got.Data {
			got.Data[i] ^= 0x5a
		}
		for i := range got.Extensions {
			got.Extensions[i] ^= 0x5a
		}
	}
	if d := refmodel.Diff(snapshot, &held); d != "" {
		res.Fail = common.Failf("held-log-changed", "log held from GetLog(%d) changed after %d later reads: %s", held.Index, len(c.Reads), d)
		return
	}
	// the caller's input logs must not have been modified by StoreLogs either
	for i := range logs {
		if d := refmodel.Diff(want[i], logs[i]); d != "" {
			res.Fail = common.Failf("input-mutated", "StoreLogs modified its input entry %d: %s", logs[i].Index, d)
			return
		}
	}
	res.NonTrivial = true
	for _, s := range c.Logs {
		if s.DataLen > 60000 || s.ExtLen > 60000 {
			res.Classes = append(res.Classes, "crosses-64KiB")
			break
		}
	}
	return
}

func TestC12Alias(t *testing.T) {
	common.Run(t, "C12", "C12Alias", genAliasCase, runAlias)
}

// ---- (3) codec identities

type xorCodec struct {
	id  uint64
	key byte
}

func (c *xorCodec) ID() uint64 { return c.id }
func (c *xorCodec) Encode(l *raft.Log, w io.Writer) error {
	var buf bytes.Buffer
	if err := (&wal.BinaryCodec{}).Encode(l, &buf); err != nil {
		return err
	}
	b := buf.Bytes()
	for i := range b {
		b[i] ^= c.key
	}
	_, err := w.Write(b)
	return err
}
func (c *xorCodec) Decode(bs []byte, l *raft.Log) error {
	b := make([]byte, len(bs))
	for i := range bs {
		b[i] = bs[i] ^ c.key
	}
	return (&wal.BinaryCodec{}).Decode(b, l)
}

type CodecIDCase struct {
	WriteID  uint64          `json:"wid"` // 0 => default codec
	ReopenID uint64          `json:"rid"` // 0 => default codec
	Key      uint8           `json:"key"`
	SegSize  int             `json:"seg"`
	Entries  []kit.EntrySpec `json:"e"`
	// history before the reopen: first index, and what happens after the first batch
	Start uint64 `json:"start,omitempty"` // 0/1 = 1
	Then  string `json:"then,omitempty"`  // "", delall (everything removed, then more appends), deltail (suffix removed, then more appends), more (one entry at a time, rotating)
}

var codecIDs = []uint64{0, 1, 2, 65535, 65536, 65537, 1 << 20, 1 << 32, 1<<63 + 5, ^uint64(0)}

func genCodecIDCase(t *rapid.T) CodecIDCase {
	c := CodecIDCase{}
	c.WriteID = rapid.SampledFrom(codecIDs).Draw(t, "wid")
	if rapid.Bool().Draw(t, "same") {
		c.ReopenID = c.WriteID
	} else {
		c.ReopenID = rapid.SampledFrom(codecIDs).Draw(t, "rid")
	}
	c.Key = uint8(rapid.IntRange(0, 255).Draw(t, "key"))
	c.SegSize = rapid.SampledFrom([]int{128, 4096}).Draw(t, "seg")
	c.Start = rapid.SampledFrom([]uint64{1, 1, 2, 100, 1 << 40}).Draw(t, "start")
	c.Then = rapid.SampledFrom([]string{"", "", "delall", "deltail", "more"}).Draw(t, "then")
	n := rapid.IntRange(1, 6).Draw(t, "n")
	for i := 0; i < n; i++ {
		c.Entries = append(c.Entries, genEntry(t, 300))
	}
	return c
}

func mkCodec(id uint64, key uint8) wal.Codec {
	if id == 0 {
		return nil // default
	}
	return &xorCodec{id: id, key: key}
}

func runCodecID(c CodecIDCase) (res common.Result) {
	res.NonTrivial = true
	fs := simfs.New()
	cfg := kit.Cfg{SegSize: c.SegSize, FS: fs, Codec: mkCodec(c.WriteID, c.Key)}
	w, err := cfg.Open()
	reservedW := c.WriteID != 0 && c.WriteID < wal.FirstExternalCodecID
	if reservedW {
		res.Classes = append(res.Classes, "reserved-id")
		if err == nil {
			w.Close()
			res.Fail = common.Failf("reserved-id-accepted", "Open with custom codec ID %d (< %d) succeeded", c.WriteID, wal.FirstExternalCodecID)
		}
		return
	}
	if err != nil {
		res.Fail = common.Failf("open-fresh", "Open(codec id %d) on empty dir = %v", c.WriteID, err)
		return
	}
	m := refmodel.NewLogModel()
	var logs []*raft.Log
	start := c.Start
	if start == 0 {
		start = 1
	}
	for i, e := range c.Entries {
		logs = append(logs, e.Make(start+uint64(i), 0))
	}
	if err := w.StoreLogs(logs); err != nil {
		w.Close()
		res.Fail = common.Failf("append-err", "StoreLogs = %v", err)
		return
	}
	m.Append(logs)
	kit.Barrier(w)
	if c.Then != "" {
		res.Classes = append(res.Classes, "codec-history:"+c.Then)
		var derr error
		switch c.Then {
		case "delall":
			derr = w.DeleteRange(m.First, m.Last)
			m.Delete(m.First, m.Last)
		case "deltail":
			if m.Len() > 1 {
				derr = w.DeleteRange(m.Last, m.Last)
				m.Delete(m.Last, m.Last)
			}
		}
		if derr != nil {
			w.Close()
			res.Fail = common.Failf("delete-err", "DeleteRange = %v", derr)
			return
		}
		next := m.Last + 1
		if m.Empty() {
			next = start + 50
		}
		for i, e := range c.Entries {
			l := e.Make(next+uint64(i), 1)
			if err := w.StoreLogs([]*raft.Log{l}); err != nil {
				w.Close()
				res.Fail = common.Failf("append-err", "StoreLogs(%d) after %s = %v", l.Index, c.Then, err)
				return
			}
			m.Append([]*raft.Log{l})
			kit.Barrier(w)
		}
	}
	if start != 1 {
		res.Classes = append(res.Classes, "codec-history:first-index-not-1")
	}
	if sig, msg := kit.CheckAgainst(w, m, nil); sig != "" {
		w.Close()
		res.Fail = common.Failf(sig, "before reopen (codec %d): %s", c.WriteID, msg)
		return
	}
	w.Close()
	cfg2 := cfg
	cfg2.Codec = mkCodec(c.ReopenID, c.Key)
	w2, err := cfg2.Open()
	reservedR := c.ReopenID != 0 && c.ReopenID < wal.FirstExternalCodecID
	switch {
	case reservedR:
		res.Classes = append(res.Classes, "reserved-id")
		if err == nil {
			w2.Close()
			res.Fail = common.Failf("reserved-id-accepted", "Open with custom codec ID %d succeeded", c.ReopenID)
		}
	case c.ReopenID == c.WriteID:
		res.Classes = append(res.Classes, fmt.Sprintf("same-codec-custom=%v", c.WriteID != 0))
		if err != nil {
			res.Fail = common.Failf("same-codec-refused", "WAL created with codec ID %d cannot be reopened with the same codec: %v", c.WriteID, err)
			return
		}
		defer w2.Close()
		if sig, msg := kit.CheckAgainst(w2, m, nil); sig != "" {
			res.Fail = common.Failf(sig, "after reopen with same codec %d: %s", c.WriteID, msg)
		}
	default:
		res.Classes = append(res.Classes, "different-codec")
		if err == nil {
			w2.Close()
			res.Fail = common.Failf("different-codec-accepted", "directory written with codec ID %d opened with codec ID %d without error", c.WriteID, c.ReopenID)
		}
	}
	if res.Fail != nil || c.ReopenID == c.WriteID {
		return
	}
	// the refused Open must have left the directory as it was and free: the same process opens
	// it again with the codec it was written with (the simulated metadata store fails a Load while
	// an earlier instance still holds it, where bolt would block)
	w3, err := cfg.Open()
	if err != nil {
		res.Fail = common.Failf("same-codec-refused-after-refusal", "after Open with codec ID %d was refused (rightly), the WAL created with codec ID %d cannot be reopened with its own codec: %v", c.ReopenID, c.WriteID, err)
		return
	}
	defer w3.Close()
	res.Classes = append(res.Classes, "own-codec-reopened-after-refusal")
	if sig, msg := kit.CheckAgainst(w3, m, nil); sig != "" {
		res.Fail = common.Failf(sig, "reopened with its own codec %d after a refused Open with codec %d: %s", c.WriteID, c.ReopenID, msg)
	}
	return
}

func TestC12CodecID(t *testing.T) {
	common.Run(t, "C12", "C12CodecID", genCodecIDCase, runCodecID)
}

// ---- (4) pooled read buffers are never shared by two reads in flight

// OverlapCase: after some reads that were made to fail half way (an I/O error
// on the 1st or 2nd ReadAt of one GetLog), reader A is parked right after one
// of its ReadAt calls has filled its buffer; while it is parked reader B does
// complete GetLogs. No buffer B reads into may overlap the one A still holds,
// and both get exactly their entries.
type OverlapCase struct {
	SegSize int        `json:"seg"`
	Sizes   []int      `json:"sizes"` // Data lengths
	Reopen  bool       `json:"reopen"`
	Faulty  []FaultGet `json:"faulty"`
	A       int        `json:"a"`
	ParkAt  int        `json:"parkAt"`
	Bs      []int      `json:"bs"`
}

type FaultGet struct {
	Pos  int `json:"pos"`
	Fail int `json:"fail"` // the Fail-th ReadAt of this GetLog returns an error
}

func genOverlapCase(t *rapid.T) OverlapCase {
	var c OverlapCase
	c.SegSize = rapid.SampledFrom([]int{4096, 1 << 20, 1 << 20}).Draw(t, "seg")
	n := rapid.IntRange(3, 7).Draw(t, "n")
	for i := 0; i < n; i++ {
		c.Sizes = append(c.Sizes, rapid.SampledFrom([]int{0, 10, 300, 300, 65000, 65536 - 40, 65536, 70000, 200000}).Draw(t, "size"))
	}
	c.Reopen = rapid.Bool().Draw(t, "reopen")
	for i, k := 0, rapid.IntRange(0, 3).Draw(t, "nfaulty"); i < k; i++ {
		c.Faulty = append(c.Faulty, FaultGet{Pos: rapid.IntRange(0, n-1).Draw(t, "fpos"), Fail: rapid.IntRange(1, 3).Draw(t, "ffail")})
	}
	c.A = rapid.IntRange(0, n-1).Draw(t, "a")
	c.ParkAt = rapid.IntRange(1, 3).Draw(t, "parkAt")
	for i, k := 0, rapid.IntRange(1, 6).Draw(t, "nb"); i < k; i++ {
		c.Bs = append(c.Bs, rapid.IntRange(0, n-1).Draw(t, "b"))
	}
	return c
}

func runOverlap(c OverlapCase) (res common.Result) {
	fs := simfs.New()
	cfg := kit.Cfg{SegSize: c.SegSize, FS: fs}
	w, err := cfg.Open()
	if err != nil {
		res.Fail = common.Failf("open-fresh", "%v", err)
		return
	}
	defer func() { w.Close() }()
	var want []*raft.Log
	for i, sz := range c.Sizes {
		l := kit.EntrySpec{DataLen: sz, Seed: uint8(17 * (i + 1)), Term: 3}.Make(uint64(i+1), 0)
		want = append(want, refmodel.CloneLog(l))
		if err := w.StoreLogs([]*raft.Log{l}); err != nil {
			res.Fail = common.Failf("append-err", "StoreLogs = %v", err)
			return
		}
		kit.Barrier(w)
	}
	if c.Reopen {
		w.Close()
		if w, err = cfg.Open(); err != nil {
			res.Fail = common.Failf("reopen-err", "%v", err)
			return
		}
		res.Classes = append(res.Classes, "sealed-segments-read-from-disk")
	}
	check := func(who string, pos int, got *raft.Log, err error) *common.Failure {
		if err != nil {
			return common.Failf("overlap/get-present-err", "%s: GetLog(%d) = %v", who, want[pos].Index, err)
		}
		if d := refmodel.Diff(want[pos], got); d != "" {
			return common.Failf("overlap/get-content", "%s: GetLog(%d) returned something else than what was stored: %s", who, want[pos].Index, d)
		}
		return nil
	}
	// reads that fail half way
	errRead := errors.New("verif: injected read error")
	for _, fg := range c.Faulty {
		reads := 0
		hit := false
		fs.SetHook(func(ev simfs.Event) (int, error) {
			if ev.Kind == simfs.KReadAt {
				reads++
				if reads == fg.Fail {
					hit = true
					return -1, errRead
				}
			}
			return -1, nil
		})
		var got raft.Log
		err := w.GetLog(want[fg.Pos].Index, &got)
		fs.SetHook(nil)
		if hit {
			res.Classes = append(res.Classes, fmt.Sprintf("read-failed-at-ReadAt#%d", fg.Fail))
			if err == nil {
				// tolerated only if the content is right (nothing in the property forbids a retry inside)
				if f := check("read with an injected error", fg.Pos, &got, nil); f != nil {
					res.Fail = f
					return
				}
			}
		} else if f := check("read", fg.Pos, &got, err); f != nil {
			res.Fail = f
			return
		}
	}
	// overlap
	type span struct{ lo, hi uintptr }
	spanOf := func(p []byte) span {
		if len(p) == 0 {
			return span{}
		}
		lo := uintptr(unsafe.Pointer(unsafe.SliceData(p)))
		return span{lo, lo + uintptr(len(p))}
	}
	var mu sync.Mutex
	var aSpan span
	aReads, parkedFlag := 0, false
	var shared string
	parked := make(chan struct{})
	release := make(chan struct{})
	fs.PostRead = func(name string, p []byte, off int64, n int, err error) {
		mu.Lock()
		if !parkedFlag {
			aReads++
			if aReads == c.ParkAt {
				parkedFlag = true
				aSpan = spanOf(p)
				mu.Unlock()
				close(parked)
				<-release
				return
			}
			mu.Unlock()
			return
		}
		s := spanOf(p)
		if s.lo < aSpan.hi && aSpan.lo < s.hi && shared == "" {
			shared = fmt.Sprintf("a read of %s at offset %d was given the buffer [%#x,%#x) while the parked reader still holds [%#x,%#x)", name, off, s.lo, s.hi, aSpan.lo, aSpan.hi)
		}
		mu.Unlock()
	}
	defer func() { fs.PostRead = nil }()
	var aGot raft.Log
	aDone := make(chan error, 1)
	go func() { aDone <- w.GetLog(want[c.A].Index, &aGot) }()
	select {
	case err := <-aDone:
		// A made fewer ReadAt calls than ParkAt: no overlap to look at
		mu.Lock()
		parkedFlag = true
		mu.Unlock()
		res.Classes = append(res.Classes, "reader-finished-before-park-point")
		res.Fail = check("reader A (not parked)", c.A, &aGot, err)
		return
	case <-parked:
	}
	for _, b := range c.Bs {
		var got raft.Log
		err := w.GetLog(want[b].Index, &got)
		if f := check(fmt.Sprintf("reader B while reader A (GetLog(%d)) is parked after its ReadAt #%d", want[c.A].Index, c.ParkAt), b, &got, err); f != nil && res.Fail == nil {
			res.Fail = f
		}
	}
	close(release)
	err = <-aDone
	mu.Lock()
	sh := shared
	mu.Unlock()
	if sh != "" {
		res.Fail = common.Failf("overlap/pool-buffer-shared", "two reads in flight share a read buffer: %s (faulty reads before: %+v)", sh, c.Faulty)
		return
	}
	if res.Fail != nil {
		return
	}
	if f := check(fmt.Sprintf("reader A, parked after its ReadAt #%d while %d other reads ran", c.ParkAt, len(c.Bs)), c.A, &aGot, err); f != nil {
		res.Fail = f
		return
	}
	res.NonTrivial = true
	res.Classes = append(res.Classes, "reads-overlapped")
	if len(c.Faulty) > 0 {
		res.Classes = append(res.Classes, "overlap-after-failed-reads")
	}
	return
}

func TestC12PoolOverlap(t *testing.T) {
	common.Run(t, "C12", "C12PoolOverlap", genOverlapCase, runOverlap)
}
