package seq

import (
	"fmt"
	gometrics "github.com/hashicorp/go-metrics/compat"
	"go/ast"
	"go/parser"
	"go/token"
	"os"
	"path/filepath"
	"sort"
	"strconv"
	"strings"
	"sync"
	"testing"

	"github.com/hashicorp/raft"
	wal "github.com/hashicorp/raft-wal"
	"github.com/hashicorp/raft-wal/metrics"
	"github.com/hashicorp/raft-wal/types"
	"github.com/hashicorp/raft-wal/verifier"
	"pgregory.net/rapid"

	"verifharness/common"
	"verifharness/kit"
	"verifharness/refmodel"
	"verifharness/simfs"
)

type counters map[string]uint64

// countingStore wraps the WAL so that every read the harness itself issues is
// added to the expected totals.
type countingStore struct {
	w   *wal.WAL
	exp counters
}

func (c *countingStore) FirstIndex() (uint64, error) { return c.w.FirstIndex() }
func (c *countingStore) LastIndex() (uint64, error)  { return c.w.LastIndex() }
func (c *countingStore) GetLog(i uint64, l *raft.Log) error {
	err := c.w.GetLog(i, l)
	c.exp["log_entries_read"]++
	if err == nil {
		c.exp["log_entry_bytes_read"] += uint64(refmodel.EncodedLen(l))
	}
	return err
}

func genMetricsCase(t *rapid.T) SeqCase {
	c := SeqCase{}
	c.SegSize = rapid.SampledFrom([]int{1, 1, 64, 128, 512, 4096}).Draw(t, "seg")
	n := rapid.IntRange(1, 30).Draw(t, "nops")
	for i := 0; i < n; i++ {
		k := rapid.IntRange(0, 99).Draw(t, "mk")
		switch {
		case k < 12:
			key := rapid.SampledFrom([]string{"CurrentTerm", "LastVoteTerm", "LastVoteCand", "k"}).Draw(t, "key")
			val := rapid.SliceOfN(rapid.Byte(), 0, 12).Draw(t, "val")
			c.Ops = append(c.Ops, Op{Kind: rapid.SampledFrom([]string{"set", "setu64"}).Draw(t, "sk"), Key: key, Val: val})
		case k < 22:
			key := rapid.SampledFrom([]string{"CurrentTerm", "LastVoteTerm", "LastVoteCand", "k", "unset"}).Draw(t, "key")
			c.Ops = append(c.Ops, Op{Kind: rapid.SampledFrom([]string{"getst", "getu64"}).Draw(t, "gk"), Key: key})
		case k < 28:
			// an append that hits an I/O error: nothing may be counted
			op := genAppend(t, 3, 300)
			op.Kind = "failappend"
			op.Bad = rapid.SampledFrom([]string{"WriteAt", "SyncFile"}).Draw(t, "failkind")
			c.Ops = append(c.Ops, op)
		case k < 34:
			// truncations that matter for the counters: everything, from zero, repeated
			c.Ops = append(c.Ops, Op{Kind: "del", Min: &Pos{Rel: rapid.SampledFrom([]string{"zero", "first"}).Draw(t, "zm"), Off: 0},
				Max: &Pos{Rel: "last", Off: int64(rapid.IntRange(-1, 2).Draw(t, "lo"))}})
		default:
			c.Ops = append(c.Ops, genOp(t, 600))
		}
	}
	return c
}

// rotationsIn compares the committed metadata before and after a StoreLogs
// (+barrier): a rotation is a segment newly sealed during the call (no
// truncation happens inside StoreLogs) that is followed by a newer tail.
func rotationsIn(before, after types.PersistentState) uint64 {
	sealed := map[uint64]bool{}
	for _, s := range before.Segments {
		if !s.SealTime.IsZero() {
			sealed[s.ID] = true
		}
	}
	n := uint64(0)
	for i, s := range after.Segments {
		if !s.SealTime.IsZero() && !sealed[s.ID] && i < len(after.Segments)-1 {
			n++
		}
	}
	return n
}

func runMetrics(c SeqCase) (res common.Result) {
	fs := simfs.New()
	coll := metrics.NewAtomicCollector(wal.MetricDefinitions)
	cfg := kit.Cfg{SegSize: c.SegSize, FS: fs, Metrics: coll}
	w, err := cfg.Open()
	if err != nil {
		res.Fail = common.Failf("open-fresh", "%v", err)
		return
	}
	defer func() { w.Close() }()
	m := refmodel.NewLogModel()
	exp := counters{}
	cs := &countingStore{w: w, exp: exp}
	var gen uint8
	cls := map[string]bool{}
	emptied, emptyTailHit := false, false
	check := func(step int, op Op) *common.Failure {
		got := coll.Summary().Counters
		names := make([]string, 0, len(got))
		for k := range got {
			names = append(names, k)
		}
		sort.Strings(names)
		for _, k := range names {
			if got[k] != exp[k] {
				return common.Failf("counter/"+k, "after step %d %v (seg=%d): counter %s = %d, true total %d (model [%d,%d])", step, op, c.SegSize, k, got[k], exp[k], m.First, m.Last)
			}
		}
		return nil
	}
	for i, op := range c.Ops {
		switch op.Kind {
		case "append":
			logs := resolveAppend(op, m, gen)
			before, _ := fs.MetaState()
			if err := w.StoreLogs(logs); err != nil {
				res.Fail = common.Failf("append-err", "step %d: StoreLogs = %v", i, err)
				return
			}
			kit.Barrier(w)
			after, _ := fs.MetaState()
			m.Append(logs)
			exp["log_appends"]++
			exp["log_entries_written"] += uint64(len(logs))
			for _, l := range logs {
				exp["log_entry_bytes_written"] += uint64(refmodel.EncodedLen(l))
			}
			if r := rotationsIn(before, after); r > 0 {
				exp["segment_rotations"] += r
				cls["rotation"] = true
			}
		case "failappend":
			logs := resolveAppend(op, m, gen)
			armed := true
			fs.SetHook(func(ev simfs.Event) (int, error) {
				if armed && string(ev.Kind) == op.Bad && strings.HasSuffix(ev.Name, ".wal") {
					armed = false
					return -1, fmt.Errorf("injected %s error", op.Bad)
				}
				return -1, nil
			})
			before, _ := fs.MetaState()
			err := w.StoreLogs(logs)
			fs.SetHook(nil)
			kit.Barrier(w)
			after, _ := fs.MetaState()
			if err == nil {
				// the fault was not reached (e.g. nothing to write): a normal append
				m.Append(logs)
				exp["log_appends"]++
				exp["log_entries_written"] += uint64(len(logs))
				for _, l := range logs {
					exp["log_entry_bytes_written"] += uint64(refmodel.EncodedLen(l))
				}
			} else {
				cls["append-io-error"] = true
				gen++
				// retry with different content so that what is on disk at these indexes is
				// determined again (a failed append may or may not survive a reopen, C10)
				retry := resolveAppend(op, m, gen)
				if err := w.StoreLogs(retry); err != nil {
					res.Fail = common.Failf("append-err", "step %d: retry after an injected %s error = %v", i, op.Bad, err)
					return
				}
				kit.Barrier(w)
				after, _ = fs.MetaState()
				m.Append(retry)
				exp["log_appends"]++
				exp["log_entries_written"] += uint64(len(retry))
				for _, l := range retry {
					exp["log_entry_bytes_written"] += uint64(refmodel.EncodedLen(l))
				}
			}
			if r := rotationsIn(before, after); r > 0 {
				exp["segment_rotations"] += r
			}
		case "bad":
			logs, ok := resolveBad(op, m, gen)
			if !ok {
				continue
			}
			if err := w.StoreLogs(logs); err == nil {
				res.Fail = common.Failf("bad-append-accepted", "step %d: invalid append accepted", i)
				return
			}
			kit.Barrier(w)
			cls["failed-append"] = true
		case "del":
			min, max := op.Min.Resolve(m), op.Max.Resolve(m)
			class := m.ClassifyDelete(min, max)
			before := m.Len()
			// does the WAL currently have an empty tail segment after sealed ones?
			st, _ := fs.MetaState()
			tailEmpty := false
			if n := len(st.Segments); n > 0 && !m.Empty() {
				tailEmpty = st.Segments[n-1].BaseIndex == m.Last+1
			}
			err := w.DeleteRange(min, max)
			if class == refmodel.DelMiddle {
				if err == nil {
					res.Fail = common.Failf("middle-delete-accepted", "step %d", i)
					return
				}
			} else {
				if err != nil {
					res.Fail = common.Failf("delete-err", "step %d: DeleteRange(%d,%d) = %v", i, min, max, err)
					return
				}
				m.Delete(min, max)
				removed := before - m.Len()
				if removed > 0 {
					gen++
				}
				switch class {
				case refmodel.DelHead:
					exp["head_truncations"] += removed
				case refmodel.DelTail:
					exp["tail_truncations"] += removed
				}
				if removed > 0 && m.Empty() {
					emptied = true
				}
				if removed > 0 && tailEmpty {
					emptyTailHit = true
				}
				if class == refmodel.DelNoop && min == 0 {
					cls["del-from-zero-noop"] = true
				}
			}
		case "get":
			var l raft.Log
			_ = cs.GetLog(op.At.Resolve(m), &l)
		case "reopen":
			// counters live in the collector, which survives the reopen
			w.Close()
			w, err = cfg.Open()
			if err != nil {
				res.Fail = common.Failf("reopen-err", "step %d: %v", i, err)
				return
			}
			cs.w = w
		case "set":
			if err := w.Set([]byte(op.Key), op.Val); err != nil {
				res.Fail = common.Failf("set-err", "step %d: %v", i, err)
				return
			}
			exp["stable_sets"]++
		case "setu64":
			if err := w.SetUint64([]byte(op.Key), uint64(len(op.Val))*0x0101010101010101); err != nil {
				res.Fail = common.Failf("set-err", "step %d: %v", i, err)
				return
			}
			exp["stable_sets"]++
		case "getst":
			_, _ = w.Get([]byte(op.Key))
			exp["stable_gets"]++
		case "getu64":
			_, _ = w.GetUint64([]byte(op.Key))
			exp["stable_gets"]++
		}
		if sig, msg := kit.CheckAgainst(cs, m, nil); sig != "" {
			res.Fail = common.Failf("model/"+sig, "after step %d %v: %s", i, op, msg)
			return
		}
		if f := check(i, op); f != nil {
			res.Fail = f
			return
		}
	}
	if emptied {
		cls["truncation-emptied-log"] = true
	}
	if emptyTailHit {
		cls["truncation-met-empty-tail"] = true
	}
	res.NonTrivial = emptied || emptyTailHit
	for k := range cls {
		res.Classes = append(res.Classes, k)
	}
	return
}

func TestC20Counters(t *testing.T) {
	common.Run(t, "C20", "C20Counters", genMetricsCase, runMetrics)
}

// ---- go-metrics collector fed every declared name (never panics, accepts all)

func TestC20GoMetrics(t *testing.T) {
	rec := common.Get("C20")
	for _, defs := range []metrics.Definitions{wal.MetricDefinitions, verifier.MetricDefinitions} {
		func() {
			defer func() {
				if p := recover(); p != nil {
					f := common.Failf("gometrics-panic", "GoMetricsCollector panicked: %v", p)
					rec.Violate("C20GoMetrics", map[string]any{"defs": defs}, f)
					t.Fatal(f.Msg)
				}
			}()
			c := metrics.NewGoMetricsCollector([]string{"verif"}, nil, nil)
			for _, d := range defs.Counters {
				c.IncrementCounter(d.Name, 1)
			}
			for _, d := range defs.Gauges {
				c.SetGauge(d.Name, 1)
			}
		}()
	}
}

// ---- exhaustive call-site scan: every literal metric name emitted in a package
// is declared in that package's MetricDefinitions.

type callSite struct {
	Pkg, File string
	Line      int
	Fn, Name  string
	Literal   bool
}

func scanCallSites(root string) ([]callSite, error) {
	var sites []callSite
	fset := token.NewFileSet()
	err := filepath.Walk(root, func(p string, info os.FileInfo, err error) error {
		if err != nil {
			return err
		}
		if info.IsDir() {
			b := filepath.Base(p)
			if b == ".git" || b == "alice" || b == "bench" || b == "testdata" {
				return filepath.SkipDir
			}
			return nil
		}
		if !strings.HasSuffix(p, ".go") || strings.HasSuffix(p, "_test.go") {
			return nil
		}
		f, err := parser.ParseFile(fset, p, nil, 0)
		if err != nil {
			return err
		}
		rel, _ := filepath.Rel(root, p)
		ast.Inspect(f, func(n ast.Node) bool {
			ce, ok := n.(*ast.CallExpr)
			if !ok {
				return true
			}
			sel, ok := ce.Fun.(*ast.SelectorExpr)
			if !ok || (sel.Sel.Name != "IncrementCounter" && sel.Sel.Name != "SetGauge") || len(ce.Args) != 2 {
				return true
			}
			cs := callSite{Pkg: f.Name.Name, File: rel, Line: fset.Position(ce.Pos()).Line, Fn: sel.Sel.Name}
			if bl, ok := ce.Args[0].(*ast.BasicLit); ok && bl.Kind == token.STRING {
				cs.Name, _ = strconv.Unquote(bl.Value)
				cs.Literal = true
			}
			sites = append(sites, cs)
			return true
		})
		return nil
	})
	return sites, err
}

func TestC20CallSites(t *testing.T) {
	rec := common.Get("C20")
	root := os.Getenv("VERIF_REPO")
	if root == "" {
		root = "/repo"
	}
	sites, err := scanCallSites(root)
	if err != nil {
		t.Fatalf("scan: %v", err)
	}
	decl := map[string]map[string]map[string]bool{ // pkg -> fn -> names
		"wal":      {"IncrementCounter": {}, "SetGauge": {}},
		"verifier": {"IncrementCounter": {}, "SetGauge": {}},
	}
	for _, d := range wal.MetricDefinitions.Counters {
		decl["wal"]["IncrementCounter"][d.Name] = true
	}
	for _, d := range wal.MetricDefinitions.Gauges {
		decl["wal"]["SetGauge"][d.Name] = true
	}
	for _, d := range verifier.MetricDefinitions.Counters {
		decl["verifier"]["IncrementCounter"][d.Name] = true
	}
	for _, d := range verifier.MetricDefinitions.Gauges {
		decl["verifier"]["SetGauge"][d.Name] = true
	}
	n := 0
	var list []string
	for _, s := range sites {
		if s.Pkg == "metrics" { // the collectors' own forwarding calls
			continue
		}
		n++
		list = append(list, fmt.Sprintf("%s:%d %s(%q)", s.File, s.Line, s.Fn, s.Name))
		d, ok := decl[s.Pkg]
		if !ok {
			continue
		}
		if !s.Literal {
			rec.Class("callsite-nonliteral-undecidable", 1)
			continue
		}
		if !d[s.Fn][s.Name] {
			f := common.Failf("undeclared-metric/"+s.Name, "%s:%d emits %s(%q) which is not in %s.MetricDefinitions", s.File, s.Line, s.Fn, s.Name, s.Pkg)
			rec.Violate("C20CallSites", s, f)
			t.Error(f.Msg)
		}
	}
	rec.Count(int64(n))
	rec.SetExtra("call_sites_scanned", int64(n))
	rec.SetExtra("call_sites", list)
	if n < 10 {
		t.Fatalf("call-site scan found only %d sites: scanner broken", n)
	}
}

// ---- go-metrics collector under two emitters at once: each observation reaches the sink under its own name

type gateSink struct {
	mu      sync.Mutex
	counts  map[string]float32
	first   chan struct{}
	release chan struct{}
	armed   bool
}

func (s *gateSink) record(key []string, val float32) {
	s.mu.Lock()
	hold := s.armed
	s.armed = false
	s.mu.Unlock()
	if hold {
		close(s.first)
		<-s.release // the first emitter is held inside the sink with its key slice in hand
	}
	s.mu.Lock()
	s.counts[strings.Join(key, ".")] += val
	s.mu.Unlock()
}
func (s *gateSink) SetGauge(key []string, val float32) { s.record(key, val) }
func (s *gateSink) SetGaugeWithLabels(key []string, val float32, _ []gometrics.Label) {
	s.record(key, val)
}
func (s *gateSink) EmitKey(key []string, val float32)     {}
func (s *gateSink) IncrCounter(key []string, val float32) { s.record(key, val) }
func (s *gateSink) IncrCounterWithLabels(key []string, val float32, _ []gometrics.Label) {
	s.record(key, val)
}
func (s *gateSink) AddSample(key []string, val float32)                                      {}
func (s *gateSink) AddSampleWithLabels(key []string, val float32, _ []gometrics.Label)       {}
func (s *gateSink) SetPrecisionGauge(key []string, val float64)                              {}
func (s *gateSink) SetPrecisionGaugeWithLabels(key []string, v float64, _ []gometrics.Label) {}

type GMCase struct {
	PrefixLen int `json:"plen"`
	SpareCap  int `json:"spare"`
	A         int `json:"a"` // index of the counter the held emitter reports
	B         int `json:"b"` // index of the counter reported meanwhile
	N         int `json:"n"` // how many times B is reported while A is held
}

func TestC20GoMetricsConcurrent(t *testing.T) {
	names := []string{}
	for _, d := range wal.MetricDefinitions.Counters {
		names = append(names, d.Name)
	}
	common.Run(t, "C20", "C20GoMetricsConcurrent", func(t *rapid.T) GMCase {
		return GMCase{PrefixLen: rapid.IntRange(0, 3).Draw(t, "plen"), SpareCap: rapid.IntRange(0, 4).Draw(t, "spare"),
			A: rapid.IntRange(0, len(names)-1).Draw(t, "a"), B: rapid.IntRange(0, len(names)-1).Draw(t, "b"), N: rapid.IntRange(1, 3).Draw(t, "n")}
	}, func(c GMCase) (res common.Result) {
		sink := &gateSink{counts: map[string]float32{}, first: make(chan struct{}), release: make(chan struct{}), armed: true}
		conf := gometrics.DefaultConfig("")
		conf.EnableHostname = false
		conf.EnableHostnameLabel = false
		conf.EnableServiceLabel = false
		conf.EnableRuntimeMetrics = false
		conf.EnableTypePrefix = false
		conf.ServiceName = ""
		gm, err := gometrics.New(conf, sink)
		if err != nil {
			res.Fail = common.Failf("harness", "go-metrics: %v", err)
			return
		}
		defer gm.Shutdown()
		prefix := make([]string, c.PrefixLen, c.PrefixLen+c.SpareCap)
		for i := range prefix {
			prefix[i] = fmt.Sprintf("p%d", i)
		}
		col := metrics.NewGoMetricsCollector(prefix, nil, gm)
		a, b := names[c.A], names[c.B]
		done := make(chan struct{})
		go func() { col.IncrementCounter(a, 1); close(done) }()
		select {
		case <-sink.first:
		case <-done:
			res.Fail = common.Failf("harness", "the sink was never reached")
			return
		}
		for i := 0; i < c.N; i++ {
			col.IncrementCounter(b, 1)
		}
		close(sink.release)
		<-done
		want := map[string]float32{}
		key := func(n string) string { return strings.Join(append(append([]string{}, prefix...), n), ".") }
		want[key(a)] += 1
		want[key(b)] += float32(c.N)
		sink.mu.Lock()
		defer sink.mu.Unlock()
		for k, v := range want {
			if sink.counts[k] != v {
				res.Fail = common.Failf("gometrics-misattributed", "while IncrementCounter(%q) was inside the sink, IncrementCounter(%q) was called %d times (prefix len %d cap %d): the sink counted %v, true totals %v", a, b, c.N, len(prefix), cap(prefix), sink.counts, want)
				return
			}
		}
		for k := range sink.counts {
			if _, ok := want[k]; !ok {
				res.Fail = common.Failf("gometrics-misattributed", "the sink received an observation under %q which nobody emitted (counts %v)", k, sink.counts)
				return
			}
		}
		res.NonTrivial = c.SpareCap > 0 && a != b
		if c.SpareCap > 0 {
			res.Classes = append(res.Classes, "prefix-with-spare-capacity")
		}
		return
	})
}
