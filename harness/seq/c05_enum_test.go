package seq

import (
	"os"
	"strconv"
	"testing"

	"verifharness/common"
	"verifharness/kit"
)

// Bounded exhaustive enumeration for C05: every sequence of at most enumDepth symbols over
// a small alphabet of operations, for a handful of geometries, each executed against the
// real segment code on SimFS with the model compared after every step (runSeq). The
// alphabet is relative to the model's bounds, so every sequence is legal input.
//
// This complements the random sequences: short histories are covered completely rather
// than sampled (e.g. "append, delete everything, append below the old base, reopen").

type enumGeom struct {
	Seg       int
	StartA    uint64 // start index used by a1 when the log is empty
	StartB    uint64 // start index used by a3/a2big when the log is empty
	NoBarrier bool
	Primary   bool // enumerated one level deeper
}

var enumGeoms = []enumGeom{
	{Seg: 1, StartA: 1, StartB: 1000, Primary: true},
	{Seg: 1, StartA: 1000, StartB: 2, NoBarrier: true},
	{Seg: 96, StartA: 1, StartB: 1},
	{Seg: 96, StartA: 1 << 40, StartB: 3, NoBarrier: true, Primary: true},
	{Seg: 4096, StartA: 1, StartB: 10},
}

func enumAlphabet(g enumGeom) []Op {
	small := kit.EntrySpec{DataLen: 9, Seed: 1, Term: 1}
	odd := kit.EntrySpec{DataLen: 0, NilData: true, Seed: 2, ExtLen: 3}
	mid := kit.EntrySpec{DataLen: 40, Seed: 3, Term: 2, Type: 1, Time: 1700000000000000000}
	p := func(rel string, off int64) *Pos { return &Pos{Rel: rel, Off: off} }
	return []Op{
		{Kind: "append", Entries: []kit.EntrySpec{small}, Start: g.StartA},
		{Kind: "append", Entries: []kit.EntrySpec{small, odd, mid}, Start: g.StartB},
		{Kind: "bad", Entries: []kit.EntrySpec{small, mid}, Bad: "gap", Start: g.StartA},
		{Kind: "bad", Entries: []kit.EntrySpec{small, mid}, Bad: "nonconsec", Start: g.StartB},
		{Kind: "del", Min: p("first", 0), Max: p("first", 0)}, // one-entry prefix
		{Kind: "del", Min: p("zero", 0), Max: p("first", 2)},  // three-entry prefix from 0 (crosses segments when small)
		{Kind: "del", Min: p("first", 0), Max: p("last", 0)},  // everything
		{Kind: "del", Min: p("last", 0), Max: p("last", 0)},   // one-entry suffix
		{Kind: "del", Min: p("last", -2), Max: p("last", 1)},  // three-entry suffix, max beyond last
		{Kind: "del", Min: p("first", 1), Max: p("first", 1)}, // middle when >= 3 entries (must be refused)
		{Kind: "reopen"},
	}
}

func enumShard() (idx, n int) {
	n, _ = strconv.Atoi(os.Getenv("VERIF_NSHARDS"))
	idx, _ = strconv.Atoi(os.Getenv("VERIF_SHARD_IDX"))
	if n <= 0 {
		n, idx = 1, 0
	}
	return
}

func TestC05Enum(t *testing.T) {
	if os.Getenv("VERIF_REPLAY") != "" {
		common.Run(t, "C05", "C05Enum", nil, runSeq)
		return
	}
	rec := common.Get("C05")
	maxDepth := common.Pick(4, 5)
	if d, err := strconv.Atoi(os.Getenv("VERIF_ENUM_DEPTH")); err == nil && d > 0 {
		maxDepth = d
	}
	shard, nshards := enumShard()
	var total, failed int64
	for gi, g := range enumGeoms {
		alpha := enumAlphabet(g)
		depth := maxDepth
		if !g.Primary && depth > 1 && !common.Thorough() {
			depth--
		}
		k := len(alpha)
		seq := make([]int, 0, depth)
		counter := 0
		var walk func()
		walk = func() {
			if failed > 0 {
				return
			}
			if len(seq) > 0 {
				counter++
				if counter%nshards == shard {
					c := SeqCase{SegSize: g.Seg, NoBarrier: g.NoBarrier}
					for _, s := range seq {
						c.Ops = append(c.Ops, alpha[s])
					}
					res := runSeqSafe(c)
					rec.Record(c, res)
					total++
					if rec.Handle("C05Enum", c, res.Fail) {
						failed++
						t.Errorf("[%s] geometry %d sequence %v: %s", res.Fail.Sig, gi, seq, res.Fail.Msg)
						return
					}
				}
			}
			if len(seq) == depth {
				return
			}
			for s := 0; s < k; s++ {
				seq = append(seq, s)
				walk()
				seq = seq[:len(seq)-1]
			}
		}
		walk()
	}
	rec.AddExtra("enumerated_sequences", total)
	rec.SetExtra("enumeration_depth", maxDepth)
	rec.Class("enumerated-exhaustively", total)
}

func runSeqSafe(c SeqCase) (res common.Result) {
	defer func() {
		if p := recover(); p != nil {
			if hp, ok := p.(common.HarnessProblem); ok {
				res = common.Result{Inconclusive: string(hp)}
				return
			}
			res.Fail = common.Failf("panic", "panic: %v", p)
		}
	}()
	return runSeq(c)
}
