// Package seq holds the sequential model-based checks (C05, C20, C12, C15, ...).
package seq

import (
	"fmt"
	"time"

	"github.com/hashicorp/raft"
	"pgregory.net/rapid"

	"verifharness/kit"
	"verifharness/refmodel"
)

// Pos is an index described relative to the model's bounds so that a case is
// pure data and resolves deterministically at run time.
type Pos struct {
	Rel string `json:"rel"` // zero, first, last, mid, abs
	Off int64  `json:"off"`
}

func (p *Pos) Resolve(m *refmodel.LogModel) uint64 {
	if p == nil {
		return 0
	}
	add := func(base uint64, off int64) uint64 {
		if off < 0 {
			if uint64(-off) > base {
				return 0
			}
			return base - uint64(-off)
		}
		return base + uint64(off)
	}
	switch p.Rel {
	case "zero":
		return add(0, p.Off)
	case "first":
		return add(m.First, p.Off)
	case "last":
		return add(m.Last, p.Off)
	case "mid":
		n := m.Len()
		if n == 0 {
			return add(1, p.Off)
		}
		o := p.Off
		if o < 0 {
			o = -o
		}
		return m.First + uint64(o)%n
	case "abs":
		return uint64(p.Off)
	}
	return 0
}

func genPos(t *rapid.T, label string) *Pos {
	rel := rapid.SampledFrom([]string{"zero", "first", "first", "last", "last", "mid", "mid"}).Draw(t, label+"rel")
	switch rel {
	case "zero":
		return &Pos{rel, int64(rapid.IntRange(0, 3).Draw(t, label+"off"))}
	case "mid":
		return &Pos{rel, int64(rapid.IntRange(0, 1000).Draw(t, label+"off"))}
	default:
		return &Pos{rel, int64(rapid.IntRange(-2, 3).Draw(t, label+"off"))}
	}
}

// Op is one step of a sequential workload.
type Op struct {
	Kind    string          `json:"k"` // append, bad, del, get, reopen, set, getst
	Entries []kit.EntrySpec `json:"e,omitempty"`
	Start   uint64          `json:"start,omitempty"` // start index when the log is empty (0 => 1)
	Bad     string          `json:"bad,omitempty"`   // gap, overlap, nonconsec, below, emptygap
	Min     *Pos            `json:"min,omitempty"`
	Max     *Pos            `json:"max,omitempty"`
	At      *Pos            `json:"at,omitempty"`
	Key     string          `json:"key,omitempty"`
	Val     []byte          `json:"val,omitempty"`
}

func (o Op) String() string {
	switch o.Kind {
	case "append":
		return fmt.Sprintf("append(n=%d,start=%d)", len(o.Entries), o.Start)
	case "bad":
		return "bad(" + o.Bad + ")"
	case "del":
		return fmt.Sprintf("del(%v,%v)", o.Min, o.Max)
	case "get":
		return fmt.Sprintf("get(%v)", o.At)
	}
	return o.Kind
}

var sizeClasses = []int{0, 1, 7, 8, 9, 15, 16, 17, 31, 33, 64, 100, 200, 300, 600, 1500}

func genEntry(t *rapid.T, maxSize int) kit.EntrySpec {
	e := kit.EntrySpec{}
	c := rapid.IntRange(0, 9).Draw(t, "szc")
	switch {
	case c < 6:
		e.DataLen = rapid.SampledFrom(sizeClasses).Draw(t, "dl")
	case c < 9:
		e.DataLen = rapid.IntRange(0, 64).Draw(t, "dl")
	default:
		e.DataLen = rapid.IntRange(0, maxSize).Draw(t, "dl")
	}
	if e.DataLen > maxSize {
		e.DataLen = maxSize
	}
	if rapid.IntRange(0, 39).Draw(t, "around64k") == 0 {
		// now and then an entry whose frame straddles the 64 KiB read buffer
		e.DataLen = 65536 - rapid.IntRange(-16, 60).Draw(t, "d64k")
	}
	e.Seed = uint8(rapid.IntRange(0, 255).Draw(t, "seed"))
	if rapid.IntRange(0, 3).Draw(t, "hasext") == 0 {
		e.ExtLen = rapid.IntRange(1, 40).Draw(t, "el")
	}
	if rapid.IntRange(0, 3).Draw(t, "hasterm") != 0 {
		e.Term = uint64(rapid.IntRange(0, 5).Draw(t, "term"))
	}
	e.Type = uint8(rapid.IntRange(0, 5).Draw(t, "type"))
	if e.DataLen == 0 {
		e.NilData = rapid.Bool().Draw(t, "nil")
	}
	if rapid.IntRange(0, 2).Draw(t, "hastime") == 0 {
		e.Time = rapid.Int64Range(1, 4e18).Draw(t, "time")
	}
	return e
}

// refmodel.StartCont (continue after the highest index ever held, as raft does after a compaction
// emptied the log) is weighted up; 2^63-2 and 2^63 put the top bit of the index in play.
var startChoices = []uint64{0, 1, 2, 3, 10, 1000, 1 << 40, 1<<63 - 2, 1 << 63, refmodel.StartCont, refmodel.StartCont, refmodel.StartCont}

func genAppend(t *rapid.T, maxBatch, maxSize int) Op {
	n := rapid.IntRange(1, maxBatch).Draw(t, "n")
	op := Op{Kind: "append"}
	for i := 0; i < n; i++ {
		op.Entries = append(op.Entries, genEntry(t, maxSize))
	}
	op.Start = rapid.SampledFrom(startChoices).Draw(t, "start")
	return op
}

func genOp(t *rapid.T, maxSize int) Op {
	k := rapid.IntRange(0, 99).Draw(t, "opk")
	switch {
	case k < 45:
		return genAppend(t, 5, maxSize)
	case k < 52:
		op := genAppend(t, 3, maxSize)
		op.Kind = "bad"
		op.Bad = rapid.SampledFrom([]string{"gap", "overlap", "nonconsec", "below", "emptygap", "badtime"}).Draw(t, "bad")
		return op
	case k < 72:
		return Op{Kind: "del", Min: genPos(t, "min"), Max: genPos(t, "max")}
	case k < 90:
		return Op{Kind: "get", At: genPos(t, "at")}
	default:
		return Op{Kind: "reopen"}
	}
}

// resolveAppend builds the batch for an append op against the model. gen is
// the generation counter used to vary content of re-appended indexes.
func resolveAppend(op Op, m *refmodel.LogModel, gen uint8) []*raft.Log {
	start := m.ResolveStart(op.Start)
	logs := make([]*raft.Log, len(op.Entries))
	for i, e := range op.Entries {
		logs[i] = e.Make(start+uint64(i), gen)
	}
	return logs
}

// resolveBad builds an invalid batch; ok=false if this kind cannot be made
// invalid in the current state (then the op is skipped).
func resolveBad(op Op, m *refmodel.LogModel, gen uint8) ([]*raft.Log, bool) {
	es := op.Entries
	mk := func(idxs ...uint64) []*raft.Log {
		logs := make([]*raft.Log, len(idxs))
		for i, ix := range idxs {
			logs[i] = es[i%len(es)].Make(ix, gen)
		}
		return logs
	}
	switch op.Bad {
	case "gap":
		if m.Empty() {
			return nil, false
		}
		return mk(m.Last+2, m.Last+3), true
	case "overlap":
		if m.Empty() {
			return nil, false
		}
		return mk(m.Last), true
	case "below":
		if m.Empty() || m.First < 2 {
			return nil, false
		}
		return mk(m.First - 1), true
	case "nonconsec":
		s := m.ResolveStart(op.Start)
		return mk(s, s+2), true
	case "badtime":
		// a contiguous batch whose last entry cannot be encoded: the standard library refuses
		// to marshal a time whose zone offset is -1 minute. The call must fail and change nothing.
		s := m.ResolveStart(op.Start)
		idxs := make([]uint64, len(es))
		for i := range idxs {
			idxs[i] = s + uint64(i)
		}
		logs := mk(idxs...)
		logs[len(logs)-1].AppendedAt = time.Unix(1700000000, 5).In(time.FixedZone("minus-one-minute", -60))
		return logs, true
	case "emptygap":
		if !m.Empty() {
			return mk(m.Last+1, m.Last+2, m.Last+4), true
		}
		s := m.ResolveStart(op.Start)
		return mk(s, s+1, s+3), true
	}
	return nil, false
}
