package seq

import (
	"bytes"
	"errors"
	"fmt"
	"io"
	"os"
	"testing"

	"github.com/hashicorp/raft"
	wal "github.com/hashicorp/raft-wal"
	"github.com/hashicorp/raft-wal/segment"
	"pgregory.net/rapid"

	"verifharness/common"
	"verifharness/kit"
	"verifharness/refmodel"
	"verifharness/simfs"
)

// SizeCase stores `Pre` small entries and then one batch whose entries have
// exactly the listed *encoded* sizes (Data length solved from the codec
// overhead), then reads everything back, before and after a reopen.
type SizeCase struct {
	SegSize int   `json:"seg"`
	Pre     int   `json:"pre"`
	Sizes   []int `json:"sizes"` // target encoded sizes of the batch entries
	Real    bool  `json:"real,omitempty"`
	After   int   `json:"after"` // small entries appended afterwards
	// Raw: the WAL runs with a custom codec that stores Data and nothing else, so the listed sizes are the
	// frame payload lengths themselves, down to 0 (the built-in codec cannot encode fewer than ~20 bytes)
	Raw bool `json:"raw,omitempty"`
	// NoGrow (SimFS): while the measured batch is stored the segment file cannot grow beyond its
	// preallocated size - a WriteAt that runs past it writes what fits and returns io.EOF, as a
	// full device or a fixed-size file does. The batch is then refused (nothing visible) or stored.
	NoGrow bool `json:"nogrow,omitempty"`
}

// rawCodec stores nothing but Data.
type rawCodec struct{}

func (rawCodec) ID() uint64 { return wal.FirstExternalCodecID + 15 }
func (rawCodec) Encode(l *raft.Log, w io.Writer) error {
	_, err := w.Write(l.Data)
	return err
}
func (rawCodec) Decode(b []byte, l *raft.Log) error {
	l.Data = append([]byte(nil), b...)
	return nil
}

// checkRaw compares bounds and every entry's Data with the model (the raw codec keeps nothing else).
func checkRaw(w *wal.WAL, m *refmodel.LogModel) (string, string) {
	f, err1 := w.FirstIndex()
	l, err2 := w.LastIndex()
	if err1 != nil || err2 != nil {
		return "bounds-err", fmt.Sprintf("FirstIndex/LastIndex = %v / %v", err1, err2)
	}
	if f != m.First || l != m.Last {
		return "bounds", fmt.Sprintf("store [%d,%d] model [%d,%d]", f, l, m.First, m.Last)
	}
	for i := m.First; i <= m.Last && m.Last > 0; i++ {
		want, _ := m.Get(i)
		var got raft.Log
		if err := w.GetLog(i, &got); err != nil {
			return "get-present-err", fmt.Sprintf("GetLog(%d) = %v (payload of %d bytes)", i, err, len(want.Data))
		}
		if !bytes.Equal(got.Data, want.Data) {
			return "get-content", fmt.Sprintf("GetLog(%d) returned %d bytes, stored %d", i, len(got.Data), len(want.Data))
		}
	}
	return "", ""
}

// solveLog builds an entry at idx whose encoding is exactly target bytes (or
// the smallest possible if target is below the minimum).
func rawLog(idx uint64, n int) *raft.Log {
	l := &raft.Log{Index: idx, Data: make([]byte, n)}
	for i := range l.Data {
		l.Data[i] = byte(i*131+int(idx)*17) | 1
	}
	return l
}

func solveLog(idx uint64, target int) *raft.Log {
	l := &raft.Log{Index: idx, Term: 3, Type: raft.LogCommand}
	base := refmodel.EncodedLen(l) // with empty data
	dl := target - base
	if dl < 0 {
		dl = 0
	}
	for tries := 0; tries < 8; tries++ {
		l.Data = make([]byte, dl)
		n := refmodel.EncodedLen(l)
		if n == target || dl == 0 && n > target {
			break
		}
		dl += target - n
		if dl < 0 {
			dl = 0
		}
	}
	// deterministic non-zero content (cheap for large sizes)
	for i := 0; i < len(l.Data); i += 1 {
		l.Data[i] = byte(i*131+int(idx)*17) | 1
	}
	return l
}

func sizeNeighbourhoods(seg int) []int {
	var v []int
	for s := 0; s <= 24; s++ {
		v = append(v, s)
	}
	for d := -24; d <= 24; d++ {
		v = append(v, 65536+d)
	}
	for _, d := range []int{-48, -40, -32, -24, -16, -9, -8, -7, -1, 0, 1, 7, 8, 9, 16, 24, 32, 40, 48} {
		if seg+d > 0 {
			v = append(v, seg+d)
		}
	}
	return v
}

func genSizeCase(real bool) func(t *rapid.T) SizeCase {
	return func(t *rapid.T) SizeCase {
		c := SizeCase{Real: real}
		c.SegSize = rapid.SampledFrom([]int{64, 4096, 65536, 1 << 20}).Draw(t, "seg")
		c.Pre = rapid.IntRange(0, 3).Draw(t, "pre")
		n := rapid.IntRange(1, 4).Draw(t, "n")
		nb := sizeNeighbourhoods(c.SegSize)
		pos := rapid.IntRange(0, n-1).Draw(t, "pos")
		for i := 0; i < n; i++ {
			if i == pos || rapid.IntRange(0, 3).Draw(t, "alsob") == 0 {
				c.Sizes = append(c.Sizes, rapid.SampledFrom(nb).Draw(t, "sz"))
			} else {
				c.Sizes = append(c.Sizes, rapid.IntRange(10, 200).Draw(t, "szs"))
			}
		}
		c.After = rapid.IntRange(0, 2).Draw(t, "after")
		c.Raw = rapid.IntRange(0, 3).Draw(t, "raw") == 0
		c.NoGrow = !real && rapid.IntRange(0, 3).Draw(t, "nogrow") == 0
		return c
	}
}

func runSize(c SizeCase) (res common.Result) {
	cfg := kit.Cfg{SegSize: c.SegSize}
	mk, check := solveLog, func(w *wal.WAL, m *refmodel.LogModel, extra []uint64) (string, string) {
		return kit.CheckAgainst(w, m, extra)
	}
	if c.Raw {
		cfg.Codec = rawCodec{}
		mk = rawLog
		check = func(w *wal.WAL, m *refmodel.LogModel, _ []uint64) (string, string) { return checkRaw(w, m) }
		res.Classes = append(res.Classes, "raw-codec")
	}
	if c.Real {
		d, err := os.MkdirTemp("", "verif-size-")
		if err != nil {
			res.Fail = common.Failf("harness", "%v", err)
			return
		}
		defer os.RemoveAll(d)
		cfg.Dir = d
	} else {
		cfg.FS = simfs.New()
	}
	w, err := cfg.Open()
	if err != nil {
		res.Fail = common.Failf("open-fresh", "%v", err)
		return
	}
	defer func() { w.Close() }()
	m := refmodel.NewLogModel()
	next := uint64(1)
	small := func(n int) *common.Failure {
		for i := 0; i < n; i++ {
			l := mk(next, 30+i)
			if err := w.StoreLogs([]*raft.Log{l}); err != nil {
				return common.Failf("append-err", "small StoreLogs(%d) = %v", next, err)
			}
			m.Append([]*raft.Log{l})
			kit.Barrier(w)
			next++
		}
		return nil
	}
	if f := small(c.Pre); f != nil {
		res.Fail = f
		return
	}
	var batch []*raft.Log
	for _, s := range c.Sizes {
		batch = append(batch, mk(next+uint64(len(batch)), s))
	}
	if c.NoGrow && cfg.FS != nil {
		limit := int64(c.SegSize)
		cfg.FS.SetHook(func(ev simfs.Event) (int, error) {
			if ev.Kind == simfs.KWriteAt && ev.Off+int64(ev.Len) > limit {
				fit := limit - ev.Off
				if fit < 0 {
					fit = 0
				}
				return int(fit), io.EOF
			}
			return -1, nil
		})
		res.Classes = append(res.Classes, "file-cannot-grow")
	}
	err = w.StoreLogs(batch)
	kit.Barrier(w)
	if c.NoGrow && cfg.FS != nil {
		cfg.FS.SetHook(nil)
		if err != nil {
			res.Classes = append(res.Classes, "short-write-refused")
		}
	}
	if err != nil {
		// refusing is legal at any size; but then nothing of the batch may be visible
		res.Classes = append(res.Classes, "batch-refused")
		if errors.Is(err, segment.ErrTooBig) {
			res.Classes = append(res.Classes, "ErrTooBig")
		}
		if sig, msg := check(w, m, []uint64{next, next + uint64(len(batch)) - 1}); sig != "" {
			res.Fail = common.Failf("refused-but-visible/"+sig, "StoreLogs refused (%v) the batch with encoded sizes %v yet the log changed: %s", err, c.Sizes, msg)
			return
		}
	} else {
		m.Append(batch)
		next += uint64(len(batch))
		if sig, msg := check(w, m, nil); sig != "" {
			res.Fail = common.Failf("accepted-unreadable/"+sig, "StoreLogs acknowledged a batch with encoded sizes %v (seg=%d) but: %s", c.Sizes, c.SegSize, msg)
			return
		}
	}
	if f := small(c.After); f != nil {
		res.Fail = f
		return
	}
	if sig, msg := check(w, m, nil); sig != "" {
		res.Fail = common.Failf("accepted-unreadable/"+sig, "after follow-up appends (sizes %v seg=%d): %s", c.Sizes, c.SegSize, msg)
		return
	}
	w.Close()
	w, err = cfg.Open()
	if err != nil {
		res.Fail = common.Failf("reopen-err", "Open after storing sizes %v (seg=%d) = %v", c.Sizes, c.SegSize, err)
		return
	}
	if sig, msg := check(w, m, nil); sig != "" {
		res.Fail = common.Failf("accepted-unreadable-after-reopen/"+sig, "after reopen (sizes %v seg=%d): %s", c.Sizes, c.SegSize, msg)
		return
	}
	// non-trivial: some size within 16 bytes of a named boundary
	for _, s := range c.Sizes {
		for _, b := range []int{0, 8, 16, 65536, 65536 - 8, c.SegSize, c.SegSize - 8, c.SegSize - 32, segment.MaxEntrySize} {
			d := s - b
			if d < 0 {
				d = -d
			}
			if d <= 16 {
				res.NonTrivial = true
			}
		}
		switch {
		case s > c.SegSize:
			res.Classes = append(res.Classes, "entry-larger-than-segment")
		case s >= 65536-24 && s <= 65536+24:
			res.Classes = append(res.Classes, "near-64KiB")
		}
		if s >= 20<<20 && s < segment.MaxEntrySize-4096 && len(c.Sizes) > 2 {
			res.Classes = append(res.Classes, "batch-larger-than-MaxEntrySize")
		}
		if s >= segment.MaxEntrySize-4096 {
			res.Classes = append(res.Classes, fmt.Sprintf("near-MaxEntrySize%+d", s-segment.MaxEntrySize))
		}
	}
	return
}

func TestC15Sim(t *testing.T) {
	common.Run(t, "C15", "C15Sim", genSizeCase(false), runSize)
}

func TestC15Real(t *testing.T) {
	common.Run(t, "C15", "C15Real", genSizeCase(true), runSize)
}

// TestC15Big exercises the 64 MiB boundary. Each case allocates several
// hundred MB, so the driver runs it in one process with a handful of cases.
func TestC15Big(t *testing.T) {
	common.Run(t, "C15", "C15Big", func(t *rapid.T) SizeCase {
		c := SizeCase{}
		// 256MiB: the big batch stays in the unsealed tail and is recovered by the tail scan on reopen
		c.SegSize = rapid.SampledFrom([]int{1 << 20, 64 << 20, 256 << 20, 256 << 20}).Draw(t, "seg")
		d := rapid.SampledFrom([]int{-1, 0, 1, 4096, -4096}).Draw(t, "delta")
		pos := rapid.IntRange(0, 2).Draw(t, "pos")
		if c.SegSize > 64<<20 && rapid.IntRange(0, 1).Draw(t, "multi") == 0 {
			// one batch of several large entries whose frames total more than MaxEntrySize
			c.Sizes = []int{24 << 20, 24<<20 + 5, 24<<20 - 3}
			c.Pre = rapid.IntRange(0, 1).Draw(t, "pre")
			c.After = rapid.IntRange(0, 1).Draw(t, "after") // 0: the big batch is the last commit of the tail at reopen
			return c
		}
		if rapid.IntRange(0, 4).Draw(t, "spill") == 0 {
			// the first write to a fresh segment is a batch whose small entries overflow the 64 KiB
			// commit buffer and whose last entry is refused: what follows must still be readable after a reopen
			c.Sizes = []int{30000, 30000 + rapid.IntRange(0, 9).Draw(t, "j"), 30000, segment.MaxEntrySize + 1}
			c.Pre, c.After = 0, rapid.IntRange(1, 2).Draw(t, "after")
			return c
		}
		switch pos {
		case 0:
			c.Sizes = []int{segment.MaxEntrySize + d}
		case 1:
			c.Sizes = []int{40, segment.MaxEntrySize + d}
		default:
			c.Sizes = []int{segment.MaxEntrySize + d, 40}
		}
		c.Pre = rapid.IntRange(0, 1).Draw(t, "pre")
		c.After = rapid.IntRange(0, 1).Draw(t, "after")
		return c
	}, runSize)
}
