package seq

import (
	"fmt"
	"os"
	"testing"

	wal "github.com/hashicorp/raft-wal"
	"pgregory.net/rapid"

	"verifharness/common"
	"verifharness/kit"
	"verifharness/refmodel"
	"verifharness/simfs"
)

func TestMain(m *testing.M) { common.Main(m) }

// SeqCase is a sequential workload on one WAL.
type SeqCase struct {
	SegSize int  `json:"seg"`
	Real    bool `json:"real,omitempty"`
	Ops     []Op `json:"ops"`
	// NoBarrier: do not wait for the background rotation after an append, so the next
	// operation (a truncation, Close, a read) races with it. The outcome must be the same.
	NoBarrier bool `json:"nobarrier,omitempty"`
	// CheckDir (SimFS, with barrier): after every step, with no call in flight, the directory
	// must hold exactly the files of the segments in committed metadata and every file exactly
	// one open handle (C13: space is reclaimed as soon as a truncation has returned).
	CheckDir bool `json:"checkdir,omitempty"`
}

var segSizes = []int{1, 40, 64, 128, 512, 4096, 1 << 20}

func genSeqCase(real bool, maxOps int) func(t *rapid.T) SeqCase {
	return func(t *rapid.T) SeqCase {
		c := SeqCase{Real: real}
		c.SegSize = rapid.SampledFrom(segSizes).Draw(t, "seg")
		maxSize := 1500
		n := rapid.IntRange(1, maxOps).Draw(t, "nops")
		for i := 0; i < n; i++ {
			c.Ops = append(c.Ops, genOp(t, maxSize))
		}
		c.NoBarrier = rapid.IntRange(0, 9).Draw(t, "nobarrier") < 4
		return c
	}
}

// genRotationRace: small segments (almost every append seals the tail and queues a
// rotation), never a barrier, and mostly append-then-truncate/reopen pairs.
func genRotationRace(real bool) func(t *rapid.T) SeqCase {
	return func(t *rapid.T) SeqCase {
		c := SeqCase{Real: real, NoBarrier: true}
		c.SegSize = rapid.SampledFrom([]int{1, 40, 64, 128, 256}).Draw(t, "seg")
		n := rapid.IntRange(2, 14).Draw(t, "npairs")
		for i := 0; i < n; i++ {
			c.Ops = append(c.Ops, genAppend(t, 4, 300))
			switch k := rapid.IntRange(0, 9).Draw(t, "then"); {
			case k < 6:
				c.Ops = append(c.Ops, Op{Kind: "del", Min: genPos(t, "min"), Max: genPos(t, "max")})
			case k < 8:
				c.Ops = append(c.Ops, Op{Kind: "reopen"})
			default:
				c.Ops = append(c.Ops, Op{Kind: "get", At: genPos(t, "at")})
			}
		}
		c.Ops = append(c.Ops, Op{Kind: "reopen"}, Op{Kind: "reopen"})
		return c
	}
}

type seqEnv struct {
	cfg kit.Cfg
	w   *wal.WAL
	m   *refmodel.LogModel
	gen uint8
	dir string
}

func newSeqEnv(c SeqCase) (*seqEnv, error) {
	e := &seqEnv{m: refmodel.NewLogModel()}
	e.cfg = kit.Cfg{SegSize: c.SegSize}
	if c.Real {
		d, err := os.MkdirTemp("", "verif-seq-")
		if err != nil {
			return nil, err
		}
		e.dir = d
		e.cfg.Dir = d
	} else {
		e.cfg.FS = simfs.New()
	}
	w, err := e.cfg.Open()
	if err != nil {
		e.cleanup()
		return nil, err
	}
	e.w = w
	return e, nil
}

func (e *seqEnv) cleanup() {
	if e.w != nil {
		e.w.Close()
	}
	if e.dir != "" {
		os.RemoveAll(e.dir)
	}
}

// runSeq executes the case, checking the model after every step.
func runSeq(c SeqCase) (res common.Result) {
	e, err := newSeqEnv(c)
	if err != nil {
		res.Fail = common.Failf("open-fresh", "Open of a fresh directory failed: %v", err)
		return
	}
	defer e.cleanup()
	cls := map[string]bool{}
	if c.SegSize == 1 {
		cls["one-entry-segments"] = true
	}
	structural := false // a truncation/base reset/rotation happened since last reopen
	truncated := false  // any truncation removing entries so far
	for i, op := range c.Ops {
		var extra []uint64
		switch op.Kind {
		case "append":
			logs := resolveAppend(op, e.m, e.gen)
			wasEmpty := e.m.Empty()
			if err := e.w.StoreLogs(logs); err != nil {
				res.Fail = common.Failf("append-err", "step %d %v: StoreLogs(%d..%d) on model [%d,%d] = %v", i, op, logs[0].Index, logs[len(logs)-1].Index, e.m.First, e.m.Last, err)
				return
			}
			e.m.Append(logs)
			if !c.NoBarrier {
				kit.Barrier(e.w)
			} else {
				cls["op-races-with-rotation"] = true
			}
			if wasEmpty && logs[0].Index != 1 {
				cls["append-empty-nonone"] = true
			}
			if wasEmpty && truncated {
				cls["append-after-empty"] = true
			}
			structural = true
		case "bad":
			logs, ok := resolveBad(op, e.m, e.gen)
			if !ok {
				continue
			}
			if err := e.w.StoreLogs(logs); err == nil {
				res.Fail = common.Failf("bad-append-accepted", "step %d %v: invalid StoreLogs (first idx %d, n=%d) on model [%d,%d] returned nil", i, op, logs[0].Index, len(logs), e.m.First, e.m.Last)
				return
			}
			cls["bad-append"] = true
			for _, l := range logs {
				extra = append(extra, l.Index)
			}
		case "del":
			min, max := op.Min.Resolve(e.m), op.Max.Resolve(e.m)
			class := e.m.ClassifyDelete(min, max)
			before := e.m.Len()
			err := e.w.DeleteRange(min, max)
			if class == refmodel.DelMiddle {
				if err == nil {
					res.Fail = common.Failf("middle-delete-accepted", "step %d: DeleteRange(%d,%d) strictly inside [%d,%d] returned nil", i, min, max, e.m.First, e.m.Last)
					return
				}
				cls["del-middle"] = true
			} else {
				if err != nil {
					res.Fail = common.Failf("delete-err", "step %d: DeleteRange(%d,%d) on [%d,%d] = %v", i, min, max, e.m.First, e.m.Last, err)
					return
				}
				e.m.Delete(min, max)
				if e.m.Len() != before {
					truncated = true
					structural = true
					e.gen++
					switch class {
					case refmodel.DelHead:
						cls["del-head"] = true
						if e.m.Empty() {
							cls["del-everything"] = true
						}
					case refmodel.DelTail:
						cls["del-tail"] = true
					}
				} else {
					cls["del-noop"] = true
				}
			}
			if min > 0 {
				extra = append(extra, min-1)
			}
			extra = append(extra, min, max, max+1)
		case "get":
			at := op.At.Resolve(e.m)
			extra = append(extra, at)
			if truncated {
				if _, ok := e.m.Get(at); !ok {
					cls["read-outside-after-trunc"] = true
				}
			}
		case "reopen":
			if err := e.w.Close(); err != nil {
				res.Fail = common.Failf("close-err", "step %d: Close = %v", i, err)
				return
			}
			w, err := e.cfg.Open()
			if err != nil {
				e.w = nil
				res.Fail = common.Failf("reopen-err", "step %d: Open after clean Close = %v (model [%d,%d])", i, err, e.m.First, e.m.Last)
				return
			}
			e.w = w
			if structural {
				cls["reopen-after-structural"] = true
			}
			structural = false
		}
		if sig, msg := kit.CheckAgainst(e.w, e.m, extra); sig != "" {
			res.Fail = common.Failf(sig, "after step %d %v (seg=%d): %s", i, op, c.SegSize, msg)
			return
		}
		if c.CheckDir && e.cfg.FS != nil && !c.NoBarrier {
			if f := checkReclaimed(e, i, op); f != nil {
				res.Fail = f
				return
			}
			if op.Kind == "del" && truncated {
				cls["dir-checked-after-truncation"] = true
			}
		}
	}
	res.NonTrivial = (truncated && (cls["read-outside-after-trunc"] || cls["reopen-after-structural"])) || cls["reopen-after-structural"]
	for k := range cls {
		res.Classes = append(res.Classes, k)
	}
	res.Note = fmt.Sprintf("final model [%d,%d]", e.m.First, e.m.Last)
	return
}

// checkReclaimed: with no call in flight and no rotation pending, the directory is exactly the
// committed metadata's file set and every segment file has exactly one open handle.
func checkReclaimed(e *seqEnv, step int, op Op) *common.Failure {
	fs := e.cfg.FS
	extra, missing := kit.DirVsMeta(fs)
	if len(extra) > 0 {
		return common.Failf("seq-dir-extra", "after step %d %v, nothing in flight: files %v are in the directory but belong to no segment of the committed metadata (model [%d,%d])", step, op, extra, e.m.First, e.m.Last)
	}
	if len(missing) > 0 {
		return common.Failf("seq-dir-missing", "after step %d %v: segments %v are listed in committed metadata but have no file", step, op, missing)
	}
	st, _ := fs.MetaState()
	if got, want := fs.OpenHandles(), len(st.Segments); got != want {
		return common.Failf("seq-handles", "after step %d %v, nothing in flight: %d file handles are open for %d live segments", step, op, got, want)
	}
	return nil
}

func TestC05Sim(t *testing.T) {
	common.Run(t, "C05", "C05Sim", genSeqCase(false, 40), runSeq)
}

// TestC04RotationRace / TestC05RotationRace: truncations, reopens and reads issued right after
// a segment-filling append, while the rotation it queued may still be pending.
func TestC04RotationRace(t *testing.T) {
	common.Run(t, "C04", "C04RotationRace", genRotationRace(false), runSeq)
}

// TestC13Seq: C05's sequences (reads of absent indexes, refused calls and reopens included) with
// the reclamation oracle after every step.
func TestC13Seq(t *testing.T) {
	gen := genSeqCase(false, 40)
	common.Run(t, "C13", "C13Seq", func(t *rapid.T) SeqCase {
		c := gen(t)
		c.NoBarrier = false
		c.CheckDir = true
		if c.SegSize > 512 {
			c.SegSize = rapid.SampledFrom([]int{1, 40, 64, 128}).Draw(t, "smallseg")
		}
		return c
	}, runSeq)
}

func TestC05Real(t *testing.T) {
	common.Run(t, "C05", "C05Real", genSeqCase(true, 25), runSeq)
}
