package seq

import (
	"bytes"
	"encoding/binary"
	"fmt"
	"io"
	"os"
	"path/filepath"
	"runtime/debug"
	"sync"
	"testing"

	"github.com/hashicorp/raft"
	wal "github.com/hashicorp/raft-wal"
	"pgregory.net/rapid"

	"verifharness/common"
	"verifharness/kit"
	"verifharness/refmodel"
	"verifharness/simfs"
)

// StableCase interleaves stable-store operations with log operations on the
// production stack (real directory, real bbolt).
type StableCase struct {
	SegSize int   `json:"seg"`
	Ops     []SOp `json:"ops"`
}

type SOp struct {
	K      string `json:"k"` // set, setnil, setu64, get, getu64, append, delhead, deltail, delall, reopen, copy
	Key    int    `json:"key,omitempty"`
	ValLen int    `json:"vl,omitempty"`
	Seed   uint8  `json:"s,omitempty"`
	U64    uint64 `json:"u,omitempty"`
	N      int    `json:"n,omitempty"`
	A      int    `json:"a,omitempty"`
}

var stableKeys = func() [][]byte {
	// "m", "wal-meta" and "stable" are the names the meta DB itself uses for its record and buckets
	ks := [][]byte{[]byte("CurrentTerm"), []byte("LastVoteTerm"), []byte("LastVoteCand"), {0}, {0, 0, 1}, []byte("k\x00z"), bytes.Repeat([]byte{0xff}, 40), []byte("a"), []byte("m"), []byte("wal-meta"), []byte("stable")}
	ks = append(ks, bytes.Repeat([]byte("K"), 32768)) // bolt's maximum key size
	return ks
}()

// keys 0,1 are used with SetUint64/GetUint64 only, the others with Set/Get only
// (the interface contract leaves mixing undefined).
func genStable(t *rapid.T) StableCase {
	c := StableCase{SegSize: rapid.SampledFrom([]int{128, 256, 4096}).Draw(t, "seg")}
	n := rapid.IntRange(3, 30).Draw(t, "nops")
	for i := 0; i < n; i++ {
		k := rapid.IntRange(0, 99).Draw(t, "k")
		switch {
		case k < 20:
			c.Ops = append(c.Ops, SOp{K: "set", Key: rapid.IntRange(2, len(stableKeys)-1).Draw(t, "key"), ValLen: rapid.SampledFrom([]int{0, 1, 8, 100, 4096, 1 << 20}).Draw(t, "vl"), Seed: uint8(rapid.IntRange(0, 255).Draw(t, "seed"))})
		case k < 25:
			c.Ops = append(c.Ops, SOp{K: "setnil", Key: rapid.IntRange(2, len(stableKeys)-1).Draw(t, "key")})
		case k < 35:
			c.Ops = append(c.Ops, SOp{K: "setu64", Key: rapid.IntRange(0, 1).Draw(t, "key"), U64: genStableU64(t)})
		case k < 48:
			c.Ops = append(c.Ops, SOp{K: "get", Key: rapid.IntRange(2, len(stableKeys)-1).Draw(t, "key")})
		case k < 55:
			c.Ops = append(c.Ops, SOp{K: "getu64", Key: rapid.IntRange(0, 1).Draw(t, "key")})
		case k < 75:
			c.Ops = append(c.Ops, SOp{K: "append", N: rapid.IntRange(1, 4).Draw(t, "n"), ValLen: rapid.SampledFrom([]int{10, 60, 150}).Draw(t, "dl")})
		case k < 80:
			c.Ops = append(c.Ops, SOp{K: "delhead", A: rapid.IntRange(0, 4).Draw(t, "a")})
		case k < 85:
			c.Ops = append(c.Ops, SOp{K: "deltail", A: rapid.IntRange(0, 2).Draw(t, "a")})
		case k < 87:
			c.Ops = append(c.Ops, SOp{K: "delall"})
		case k < 94:
			c.Ops = append(c.Ops, SOp{K: "reopen"})
		default:
			c.Ops = append(c.Ops, SOp{K: "copy"})
		}
	}
	return c
}

// genStableU64 covers the whole uint64 range with weight on the shapes an encoding mistake would
// trip over: boundaries, single bits, all-ones prefixes, a single non-zero byte at each of the
// eight byte positions, values whose byte-reversal is small, and uniform values of every bit length.
func genStableU64(t *rapid.T) uint64 {
	switch rapid.IntRange(0, 6).Draw(t, "ushape") {
	case 0:
		return rapid.SampledFrom([]uint64{0, 1, 77, 255, 256, 1 << 32, 1<<32 - 1, 1 << 56, 1 << 63, ^uint64(0), ^uint64(0) - 1}).Draw(t, "u")
	case 1:
		return uint64(1) << rapid.IntRange(0, 63).Draw(t, "bit")
	case 2:
		return uint64(1)<<rapid.IntRange(1, 63).Draw(t, "bit") - 1
	case 3:
		return uint64(rapid.IntRange(1, 255).Draw(t, "byte")) << (8 * rapid.IntRange(0, 7).Draw(t, "pos"))
	case 4:
		// two non-zero bytes, anywhere
		a := uint64(rapid.IntRange(1, 255).Draw(t, "b1")) << (8 * rapid.IntRange(0, 7).Draw(t, "p1"))
		b := uint64(rapid.IntRange(1, 255).Draw(t, "b2")) << (8 * rapid.IntRange(0, 7).Draw(t, "p2"))
		return a | b
	case 5:
		bits := rapid.IntRange(1, 64).Draw(t, "bits")
		v := rapid.Uint64().Draw(t, "u")
		if bits < 64 {
			v &= uint64(1)<<bits - 1
			v |= uint64(1) << (bits - 1)
		}
		return v
	default:
		return rapid.Uint64().Draw(t, "u")
	}
}

// U64Case: SetUint64/GetUint64 round trips over the whole value range on SimFS+SimMeta
// (the encoding lives in wal.go, above the MetaStore), read back at once, after other keys
// were written, and after a reopen.
type U64Case struct {
	Vals   []uint64 `json:"vals"`
	Keys   []int    `json:"keys"` // index into u64Keys per value
	Reopen []bool   `json:"reopen"`
}

var u64Keys = [][]byte{[]byte("CurrentTerm"), []byte("LastVoteTerm"), []byte("x"), {0}}

func genU64Case(t *rapid.T) U64Case {
	n := rapid.IntRange(1, 12).Draw(t, "n")
	c := U64Case{}
	for i := 0; i < n; i++ {
		c.Vals = append(c.Vals, genStableU64(t))
		c.Keys = append(c.Keys, rapid.IntRange(0, len(u64Keys)-1).Draw(t, "key"))
		c.Reopen = append(c.Reopen, rapid.IntRange(0, 4).Draw(t, "reopen") == 0)
	}
	return c
}

func runU64(c U64Case) (res common.Result) {
	cfg := kit.Cfg{SegSize: 4096, FS: simfs.New()}
	w, err := cfg.Open()
	if err != nil {
		res.Fail = common.Failf("open-fresh", "%v", err)
		return
	}
	defer func() { w.Close() }()
	model := map[int]uint64{}
	check := func(where string) *common.Failure {
		for k := range u64Keys {
			got, err := w.GetUint64(u64Keys[k])
			if err != nil {
				return common.Failf("stable-get-err", "%s: GetUint64(%q) = %v", where, u64Keys[k], err)
			}
			if got != model[k] {
				return common.Failf("stable-u64", "%s: GetUint64(%q) = %d (%#x), latest SetUint64 was %d (%#x)", where, u64Keys[k], got, got, model[k], model[k])
			}
		}
		return nil
	}
	for i, v := range c.Vals {
		k := c.Keys[i]
		if err := w.SetUint64(u64Keys[k], v); err != nil {
			res.Fail = common.Failf("set-err", "step %d: SetUint64(%q,%d) = %v", i, u64Keys[k], v, err)
			return
		}
		model[k] = v
		if v >= 1<<56 {
			res.Classes = append(res.Classes, "u64-top-byte-set")
		}
		if f := check(fmt.Sprintf("after step %d SetUint64(%q,%#x)", i, u64Keys[k], v)); f != nil {
			res.Fail = f
			return
		}
		if c.Reopen[i] {
			if err := w.Close(); err != nil {
				res.Fail = common.Failf("close-err", "step %d: %v", i, err)
				return
			}
			if w, err = cfg.Open(); err != nil {
				res.Fail = common.Failf("reopen-err", "step %d: %v", i, err)
				return
			}
			res.Classes = append(res.Classes, "reopen")
			if f := check(fmt.Sprintf("after the reopen following step %d", i)); f != nil {
				res.Fail = f
				return
			}
		}
	}
	res.NonTrivial = true
	return
}

func TestC08U64(t *testing.T) {
	common.Run(t, "C08", "C08U64", genU64Case, runU64)
}

func copyTree(src, dst string) error {
	ents, err := os.ReadDir(src)
	if err != nil {
		return err
	}
	for _, e := range ents {
		in, err := os.Open(filepath.Join(src, e.Name()))
		if err != nil {
			return err
		}
		out, err := os.Create(filepath.Join(dst, e.Name()))
		if err != nil {
			in.Close()
			return err
		}
		_, err = io.Copy(out, in)
		in.Close()
		out.Close()
		if err != nil {
			return err
		}
	}
	return nil
}

// checkStable compares every key (and the log) of w with the models.
func checkStable(w *wal.WAL, sm map[int][]byte, um map[int]uint64, lm *refmodel.LogModel, where string) *common.Failure {
	for k := 2; k < len(stableKeys); k++ {
		got, err := w.Get(stableKeys[k])
		if err != nil {
			return common.Failf("stable-get-err", "%s: Get(key#%d) = %v", where, k, err)
		}
		if !bytes.Equal(got, sm[k]) {
			return common.Failf("stable-value", "%s: Get(key#%d) returned %d bytes (%x...), latest acknowledged Set was %d bytes (%x...)", where, k, len(got), head(got), len(sm[k]), head(sm[k]))
		}
	}
	for k := 0; k < 2; k++ {
		got, err := w.GetUint64(stableKeys[k])
		if err != nil {
			return common.Failf("stable-get-err", "%s: GetUint64(%s) = %v", where, stableKeys[k], err)
		}
		if got != um[k] {
			return common.Failf("stable-u64", "%s: GetUint64(%s) = %d, latest SetUint64 was %d", where, stableKeys[k], got, um[k])
		}
	}
	if sig, msg := kit.CheckAgainst(w, lm, nil); sig != "" {
		return common.Failf("log-altered/"+sig, "%s: %s", where, msg)
	}
	return nil
}

func runStableCase(c StableCase) (res common.Result) {
	dir, err := os.MkdirTemp("", "verif-stable-")
	if err != nil {
		res.Fail = common.Failf("harness", "%v", err)
		return
	}
	defer os.RemoveAll(dir)
	cfg := kit.Cfg{SegSize: c.SegSize, Dir: dir}
	w, err := cfg.Open()
	if err != nil {
		res.Fail = common.Failf("open-fresh", "%v", err)
		return
	}
	defer func() {
		if w != nil {
			w.Close()
		}
	}()
	sm := map[int][]byte{}
	um := map[int]uint64{}
	lm := refmodel.NewLogModel()
	metaCommits := 0 // log operations since start (each may commit metadata)
	epoch := 0       // reopens and crash-image copies since start
	setMeta, setEpoch := map[int]int{}, map[int]int{}
	cls := map[string]bool{}
	var gen uint8
	// values returned by Get are held and must stay unchanged whatever happens later
	type heldVal struct {
		key  int
		got  []byte
		snap []byte
		at   int
	}
	var held []heldVal
	checkHeld := func(where string) (f *common.Failure) {
		defer func() {
			if p := recover(); p != nil {
				f = common.Failf("held-value-unreadable", "%s: a slice returned earlier by Get is no longer readable (%v): it aliased storage owned by the meta DB", where, p)
			}
		}()
		old := debug.SetPanicOnFault(true)
		defer debug.SetPanicOnFault(old)
		for _, h := range held {
			if !bytes.Equal(h.got, h.snap) {
				return common.Failf("held-value-changed", "%s: the %d-byte value returned by Get(key#%d) at step %d changed afterwards: it aliased storage owned by the meta DB", where, len(h.snap), h.key, h.at)
			}
		}
		return nil
	}
	for i, op := range c.Ops {
		where := fmt.Sprintf("step %d %s", i, op.K)
		switch op.K {
		case "set":
			val := kit.Fill(op.ValLen, op.Seed, uint64(op.Key), 9)
			if op.ValLen == 0 {
				val = []byte{}
			}
			if err := w.Set(stableKeys[op.Key], val); err != nil {
				res.Fail = common.Failf("set-err", "%s: Set(key#%d, %d bytes) = %v", where, op.Key, op.ValLen, err)
				return
			}
			sm[op.Key] = val
			setMeta[op.Key], setEpoch[op.Key] = metaCommits, epoch
			if got, err := w.Get(stableKeys[op.Key]); err == nil && len(got) > 0 && len(held) < 12 {
				held = append(held, heldVal{key: op.Key, got: got, snap: append([]byte{}, got...), at: i})
				cls["held-get-result"] = true
			}
			if op.ValLen >= 1<<20 {
				cls["value-1MiB"] = true
			}
			if op.Key == len(stableKeys)-1 {
				cls["key-32KiB"] = true
			}
		case "setnil":
			if err := w.Set(stableKeys[op.Key], nil); err != nil {
				res.Fail = common.Failf("set-err", "%s: Set(key#%d, nil) = %v", where, op.Key, err)
				return
			}
			delete(sm, op.Key)
			cls["set-nil"] = true
		case "setu64":
			if err := w.SetUint64(stableKeys[op.Key], op.U64); err != nil {
				res.Fail = common.Failf("set-err", "%s: SetUint64 = %v", where, err)
				return
			}
			um[op.Key] = op.U64
			// the documented encoding: Get returns the 8 little-endian bytes
			raw, _ := w.Get(stableKeys[op.Key])
			var want [8]byte
			binary.LittleEndian.PutUint64(want[:], op.U64)
			if !bytes.Equal(raw, want[:]) {
				res.Fail = common.Failf("stable-u64-encoding", "%s: SetUint64(%d) stored %x", where, op.U64, raw)
				return
			}
		case "get", "getu64":
			// every key is read after every step by checkStable below
		case "append":
			start := lm.Last + 1
			if lm.Empty() {
				start = 1
			}
			var logs []*raft.Log
			for j := 0; j < op.N; j++ {
				logs = append(logs, kit.EntrySpec{DataLen: op.ValLen, Seed: uint8(i + j)}.Make(start+uint64(j), gen))
			}
			if err := w.StoreLogs(logs); err != nil {
				res.Fail = common.Failf("append-err", "%s: %v", where, err)
				return
			}
			kit.Barrier(w)
			lm.Append(logs)
			metaCommits++
		case "delhead", "deltail", "delall":
			if lm.Empty() {
				continue
			}
			var min, max uint64
			switch op.K {
			case "delhead":
				min, max = lm.First, lm.First+uint64(op.A)
			case "deltail":
				min, max = lm.Last-uint64(op.A)%lm.Len(), lm.Last
			default:
				min, max = lm.First, lm.Last
			}
			if err := w.DeleteRange(min, max); err != nil {
				res.Fail = common.Failf("delete-err", "%s: %v", where, err)
				return
			}
			lm.Delete(min, max)
			gen++
			metaCommits++
			cls["truncation"] = true
		case "reopen":
			w.Close()
			w, err = cfg.Open()
			if err != nil {
				w = nil
				res.Fail = common.Failf("reopen-err", "%s: %v", where, err)
				return
			}
			epoch++
			cls["reopen"] = true
		case "copy":
			// quiescent process-crash image: no call is in flight and the rotation
			// goroutine is idle (barrier), so no bolt transaction is open; the
			// copy sees what the page cache holds, i.e. what a killed process leaves.
			kit.Barrier(w)
			cp, err := os.MkdirTemp("", "verif-stable-copy-")
			if err != nil {
				res.Fail = common.Failf("harness", "%v", err)
				return
			}
			if err := copyTree(dir, cp); err != nil {
				os.RemoveAll(cp)
				res.Fail = common.Failf("harness", "%v", err)
				return
			}
			w2, err := kit.Cfg{SegSize: c.SegSize, Dir: cp}.Open()
			if err != nil {
				os.RemoveAll(cp)
				res.Fail = common.Failf("crash-image-open", "%s: opening a copy of the directory taken while idle = %v", where, err)
				return
			}
			f := checkStable(w2, sm, um, lm, where+" (process-crash image)")
			w2.Close()
			os.RemoveAll(cp)
			if f != nil {
				res.Fail = f
				return
			}
			cls["crash-image"] = true
			epoch++
		}
		if f := checkStable(w, sm, um, lm, "after "+where); f != nil {
			res.Fail = f
			return
		}
		if f := checkHeld("after " + where); f != nil {
			res.Fail = f
			return
		}
		for k := range sm {
			if metaCommits > setMeta[k] && epoch > setEpoch[k] {
				res.NonTrivial = true
				cls["get-after-log-op-and-reopen"] = true
			}
		}
	}
	for k := range cls {
		res.Classes = append(res.Classes, k)
	}
	return
}

func TestC08Stable(t *testing.T) {
	common.Run(t, "C08", "C08Stable", genStable, runStableCase)
}

// ---- concurrent variant: one goroutine mutates the log, another sets and gets its own keys

type ConcCase struct {
	SegSize int   `json:"seg"`
	Appends int   `json:"appends"`
	Sets    []int `json:"sets"` // value lengths
}

func TestC08Concurrent(t *testing.T) {
	common.Run(t, "C08", "C08Concurrent", func(t *rapid.T) ConcCase {
		c := ConcCase{SegSize: rapid.SampledFrom([]int{128, 256}).Draw(t, "seg"), Appends: rapid.IntRange(5, 40).Draw(t, "appends")}
		for i := 0; i < rapid.IntRange(5, 40).Draw(t, "nsets"); i++ {
			c.Sets = append(c.Sets, rapid.SampledFrom([]int{0, 1, 8, 300, 5000}).Draw(t, "vl"))
		}
		return c
	}, func(c ConcCase) (res common.Result) {
		dir, err := os.MkdirTemp("", "verif-stable-")
		if err != nil {
			res.Fail = common.Failf("harness", "%v", err)
			return
		}
		defer os.RemoveAll(dir)
		w, err := kit.Cfg{SegSize: c.SegSize, Dir: dir}.Open()
		if err != nil {
			res.Fail = common.Failf("open-fresh", "%v", err)
			return
		}
		defer w.Close()
		var wg sync.WaitGroup
		var logErr, stErr *common.Failure
		lm := refmodel.NewLogModel()
		wg.Add(2)
		go func() {
			defer wg.Done()
			for i := 0; i < c.Appends; i++ {
				l := kit.EntrySpec{DataLen: 70, Seed: uint8(i)}.Make(lm.Last+1, 0)
				if err := w.StoreLogs([]*raft.Log{l}); err != nil {
					logErr = common.Failf("append-err", "concurrent StoreLogs(%d) = %v", l.Index, err)
					return
				}
				lm.Append([]*raft.Log{l})
				if i%7 == 6 {
					if err := w.DeleteRange(lm.First, lm.First+1); err != nil {
						logErr = common.Failf("delete-err", "concurrent DeleteRange = %v", err)
						return
					}
					lm.Delete(lm.First, lm.First+1)
				}
			}
		}()
		sm := map[int][]byte{}
		go func() {
			defer wg.Done()
			for i, vl := range c.Sets {
				k := 2 + i%3
				val := kit.Fill(vl, uint8(i), uint64(k), 4)
				if err := w.Set(stableKeys[k], val); err != nil {
					stErr = common.Failf("set-err", "concurrent Set = %v", err)
					return
				}
				sm[k] = val
				got, err := w.Get(stableKeys[k])
				if err != nil || !bytes.Equal(got, val) {
					stErr = common.Failf("read-your-writes", "Set(key#%d,%d bytes) then Get returned %d bytes, err %v, while the log was being mutated", k, vl, len(got), err)
					return
				}
			}
		}()
		wg.Wait()
		if logErr != nil {
			res.Fail = logErr
			return
		}
		if stErr != nil {
			res.Fail = stErr
			return
		}
		kit.Barrier(w)
		res.Fail = checkStable(w, sm, map[int]uint64{}, lm, "after concurrent run")
		res.NonTrivial = true
		res.Classes = []string{"concurrent-log-and-stable"}
		return
	})
}
